#!/usr/bin/env python3
"""regenerates MANIFEST.json from the table below (kept next to the checks so that it stays in sync)"""
import json, os
V = os.path.dirname(os.path.dirname(os.path.abspath(__file__)))
props = [json.loads(l) for l in open(os.path.join(V, 'properties.jsonl'))]
TECH = 'CBMC bounded symbolic execution of the real C functions (goto-cc build of /repo) + SAT verdict (kissat); counterexamples replayed natively (gcc+ASan)'
CLAIMED = {
 'C17': dict(text='Bounded model checking of the real parity.c split arithmetic (parity_split_find, parity_read/write, parity_chsize and its static helpers) over an abstract file system: for every layout of <= 3 (quick) / 4 (thorough) splits with symbolic block-multiple sizes and symbolic per-file capacities the solver shows the prefix-sum bijection, no straddling, write/read reach the same (file, offset), resize post-conditions and position stability across one resize from any layout and across two resizes from an empty parity. Right level: pure integer/offset arithmetic with rare corner cases (capacity hit mid-growth, zero-size middle split) that no scripted test samples.',
             note='Assumes the abstract FS contract (grow iff <= capacity, shrink always succeeds), block size enumerated (powers of two listed in evidence), split count/size bounds as listed; trusted: cbmc, kissat, the FS stubs. Outside: real file systems, parity_open/create open() handling, byte-identity of concatenated splits (follows from the bijection + C06).',
             ref='DESIGN.md §3 C17'),
}
NA_DEFAULT = 'check not built yet in this session (see DESIGN.md for the planned harness); not claimed'
m = {
 'version': 1,
 'setup_cmd': 'bin/setup.sh',
 'hooks': {'guard': 'SNAPRAID_VERIF', 'enable': 'no hooks are compiled into /repo: static functions are reached with goto-cc --export-file-local-symbols, inline asm is translated outside the tree, the environment is stubbed at link time',
           'baseline_off_cmd': 'bin/run_repo_tests.sh', 'source_commits': [], 'add_only': True},
 'engines': [{'name': 'vf', 'path': 'lib/vf.py', 'serves_properties': sorted(CLAIMED), 'kind_free_text': 'driver: goto-cc build of /repo units + harness, cbmc --unwinding-assertions with kissat, witness twins, negative controls, trace -> input tape -> native replay'}],
 'checks': [], 'not_applicable': [],
 'notes': 'bin/check <ID> --tier quick|thorough. exit 0 held / 1 VIOLATION / 2 machinery broken. See DESIGN.md.',
}
for p in props:
    i = p['id']
    if i in CLAIMED:
        c = CLAIMED[i]
        m['checks'].append({'property_id': i, 'quick_cmd': 'bin/check %s --tier quick' % i, 'thorough_cmd': 'bin/check %s --tier thorough' % i,
            'evidence_file': 'evidence/%s.json' % i, 'replay_cmd_template': 'bin/check --replay {path}', 'engine': 'vf',
            'level_claimed': {'category': c.get('cat', 'model_checking'), 'text': c['text'], 'design_ref': c['ref']},
            'level_note': c['note'], 'technique': c.get('tech', TECH)})
    else:
        m['not_applicable'].append({'property_id': i, 'reason': NA_DEFAULT})
json.dump(m, open(os.path.join(V, 'MANIFEST.json'), 'w'), indent=1)
print('MANIFEST.json: %d checks, %d not applicable' % (len(m['checks']), len(m['not_applicable'])))
