#!/usr/bin/env python3
"""regenerates MANIFEST.json from the table below (kept next to the checks so that it stays in sync)"""
import json, os
V = os.path.dirname(os.path.dirname(os.path.abspath(__file__)))
props = [json.loads(l) for l in open(os.path.join(V, 'properties.jsonl'))]
TECH = 'CBMC bounded symbolic execution of the real C functions (goto-cc build of /repo) + SAT verdict (kissat); counterexamples replayed natively (gcc+ASan)'
CLAIMED = {
 'C02': dict(text='Bounded model checking of every parity generator of raid/int.c, raid/intz.c and (through a regenerated asm->C translation onto a virtual SSE2/SSSE3/AVX2 register file) raid/x86.c, raid/x86z.c, each called directly: for the enumerated disk counts all data bytes and the previous parity contents are symbolic and the solver shows parity_j = sum_i A[j][i]*D_i in GF(2^8)/0x11d with A recomputed from the Cauchy/power definition, data blocks and pointer vector untouched, no write outside the parity buffers (CBMC bounds checks). Every lookup table is tied to the field / matrix definition entry-wise with symbolic indices, and the x2/d2 bit tricks for all 2^64 words. Right level: the quantifier is over all data contents and all table entries; a wrong table column or a missed store needs one specific input the self-test never builds.',
             note='nd enumerated (dense all-symbolic for small nd, three symbolic disks for large nd incl. 251), size 64/128 (8 for the byte-wise int8 kernels); trusted: cbmc, kissat, lib/asm2c.py + simd_emu.h (validated natively against the real instructions on every run; counterexamples are replayed against the real asm), lib/gf.py. Outside: other nd/sizes, CPU dispatch, store ordering, alignment.',
             ref='DESIGN.md §3 C02'),
 'C03': dict(text='Bounded model checking of raid_rec / raid_data / raid_delta_gen / raid_rec1of1 / raid_rec2of2_int8 / raid_invert and the int8, SSSE3 and AVX2 decoders: for each enumerated failure index set the stripe is built from symbolic data with parity computed from the definition, the lost buffers (and unused parities) hold arbitrary garbage, and the solver shows every one of the nd+np buffers equals the original afterwards, the zero buffer and pointer vector are intact and no BUG_ON fires.',
             note='failure index sets enumerated by the generator (listed per job), size 64; table() of raid/gf.h analysed through an equivalent substitute because of a CBMC 6.11 defect (equivalence is its own obligation). Outside: index sets not enumerated; large minors (Cauchy determinant theorem, not machine checked).',
             ref='DESIGN.md §3 C03'),
 'C09': dict(text='Bounded model checking of the content-file decoders of cmdline/stream.c on an arbitrary byte string delivered in arbitrary chunks (memory safety by CBMC bounds/pointer checks + value semantics of every varint/string/token decoder), and of the CRC-32C seal (table-driven loops by induction from an arbitrary CRC state, SSE4.2 path through a translated util.h, tables entry-wise, no single-byte difference maps to zero).',
             note='untrusted file <= 14 bytes, STREAM_SIZE 4; CRC lengths <= 12 (x86 path) / inductive steps (table path). Not covered here: the accept logic of state_read_content as a whole and the save-verify-rename sequence (see DESIGN.md C09-3/4). Trusted: cbmc, kissat, memory-file stubs, crc_emu.h.',
             ref='DESIGN.md §3 C09'),
 'C10': dict(text='Bounded model checking of the codec pairs sputb32/sgetb32, sputb64/sgetb64, sputble32/sgetble32, sputbs/sgetbs through a real write stream whose flushes land in a memory file that a real read stream consumes in arbitrary chunks: get(put(v)) == v for every 32/64-bit value and every string within the bound, encoder length bounds, decoder consumes exactly what was produced.',
             note='strings <= 6 bytes, STREAM_SIZE 4. Outside: record-level writer/reader round trips of state.c (not within reach as whole functions, see DESIGN.md C10-3).',
             ref='DESIGN.md §3 C10'),
 'C13': dict(text='Rely-guarantee bounded model checking of the I/O ring of cmdline/io.c: every critical section of io_reader_step, io_writer_step, io_task_read_thread, io_parity_write_thread, io_read_next_thread, io_write_next_thread is executed from an arbitrary state satisfying a ring invariant, with thread_cond_wait modelled as "any other thread does anything that preserves the invariant". The solver shows the invariant is inductive, a worker never takes the slot the computing thread uses (exclusive buffer ownership), slots advance strictly in order, every position is scheduled exactly once in plan order, errors of writers are counted exactly once, and the waiter is woken when its guard turns true.',
             note='io_max enumerated (3, 4, 128 quick), two representative readers/writers, <= 2 wake-ups per step; trusted: cbmc, kissat, pthread semantics, the invariant written in harness/C13_io.c. Outside: termination/fairness, scan threads, thread creation/join.',
             ref='DESIGN.md §3 C13'),
 'C15': dict(text='Bounded model checking of the real state_scrub() plan computation together with the real block_is_enabled(), run as the command runs them, over symbolic per-stripe info words, clock, plan and age: bad stripes always, full = all used, new = never-scrubbed, percentage = oldest first, within the quota, none younger than the limit, and one-step progress.',
             note='<= 4 stripes quick / 6 thorough; scrub loop replaced by a recorder of the selection; mark/clear rules are outside this check. Trusted: cbmc, kissat, stubs.',
             ref='DESIGN.md §3 C15'),
 'C16': dict(cat='translation_validation', text='Translation validation of the current block-hash implementations (MurmurHash3_x86_128, SpookyHash128, MetroHash128 via memhash) against a frozen copy of the pinned tree for symbolic message and seed at every message length in the bound; CRC-32C and the varint/string codecs against their mathematical definition. Any change of a constant, rotation, tail rule or seed use yields a differing message.',
             note='lengths 0..48 quick (murmur 0..99, spooky 0..229, metro 0..129 thorough); back end cvc5 for the hash miters. The reference is frozen source, not a reference binary. Parity coefficients: see C02 tables.',
             ref='DESIGN.md §3 C16', tech='CBMC bounded symbolic execution of current vs frozen reference functions, equivalence decided by cvc5 / kissat'),
 'C17': dict(text='Bounded model checking of the real parity.c split arithmetic (parity_split_find, parity_read/write, parity_chsize and its static helpers) over an abstract file system: for every layout of <= 3 (quick) / 4 (thorough) splits with symbolic block-multiple sizes and symbolic per-file capacities the solver shows the prefix-sum bijection, no straddling, write/read reach the same (file, offset), resize post-conditions and position stability across one resize from any layout and across two resizes from an empty parity. Right level: pure integer/offset arithmetic with rare corner cases (capacity hit mid-growth, zero-size middle split) that no scripted test samples.',
             note='Assumes the abstract FS contract (grow iff <= capacity, shrink always succeeds), block size enumerated (powers of two listed in evidence), split count/size bounds as listed; trusted: cbmc, kissat, the FS stubs. Outside: real file systems, parity_open/create open() handling, byte-identity of concatenated splits (follows from the bijection + C06).',
             ref='DESIGN.md §3 C17'),
 'C18': dict(text='Bounded model checking of the real rule evaluation of cmdline/elem.c (filter_alloc_file parsing, filter_apply / filter_recurse / filter_element via filter_path, filter_subdir, filter_emptydir, filter_content) against a reference evaluator written from the documentation, with the glob matcher as an uninterpreted consistent function: pattern validity for every pattern string in the bound, and for every enumerated path structure and symbolic rule kinds / directions / matcher answers the same verdict as "first match decides, default opposite of the last rule, names per component, rooted patterns on the path".',
             note='patterns <= 4 bytes, <= 2 rules quick / 3 thorough, path structures up to 3 components; libc fnmatch semantics and scan-time / -f -d -m -e use are outside. Trusted: cbmc, kissat, reference evaluator.',
             ref='DESIGN.md §3 C18'),
 'C20': dict(text='Bounded model checking of esc_tag / esc_shell_multi (every name of arbitrary bytes within the bound is escaped injectively, contains no raw separator, and decodes back) and of the duplicate key computation hash_alloc (key = digest of exactly the sequence of block hashes; files with a block lacking an up-to-date hash get no key).',
             note='names <= 4 bytes quick; memhash replaced by a recorder; pool, list and status output are outside (file-system walks / formatting). Narrow scope by design.',
             ref='DESIGN.md §3 C20'),
}
NA_DEFAULT = 'check not built yet in this session (see DESIGN.md for the planned harness); not claimed'
m = {
 'version': 1,
 'setup_cmd': 'bin/setup.sh',
 'hooks': {'guard': 'SNAPRAID_VERIF', 'enable': 'no hooks are compiled into /repo: static functions are reached with goto-cc --export-file-local-symbols, inline asm is translated outside the tree, the environment is stubbed at link time',
           'baseline_off_cmd': 'bin/run_repo_tests.sh', 'source_commits': [], 'add_only': True},
 'engines': [{'name': 'vf', 'path': 'lib/vf.py', 'serves_properties': sorted(CLAIMED), 'kind_free_text': 'driver: goto-cc build of /repo units + harness, cbmc --unwinding-assertions with kissat, witness twins, negative controls, trace -> input tape -> native replay'}],
 'checks': [], 'not_applicable': [],
 'notes': 'bin/check <ID> --tier quick|thorough. exit 0 held / 1 VIOLATION / 2 machinery broken. See DESIGN.md.',
}
for p in props:
    i = p['id']
    if i in CLAIMED:
        c = CLAIMED[i]
        m['checks'].append({'property_id': i, 'quick_cmd': 'bin/check %s --tier quick' % i, 'thorough_cmd': 'bin/check %s --tier thorough' % i,
            'evidence_file': 'evidence/%s.json' % i, 'replay_cmd_template': 'bin/check --replay {path}', 'engine': 'vf',
            'level_claimed': {'category': c.get('cat', 'model_checking'), 'text': c['text'], 'design_ref': c['ref']},
            'level_note': c['note'], 'technique': c.get('tech', TECH)})
    else:
        m['not_applicable'].append({'property_id': i, 'reason': NA_DEFAULT})
json.dump(m, open(os.path.join(V, 'MANIFEST.json'), 'w'), indent=1)
print('MANIFEST.json: %d checks, %d not applicable' % (len(m['checks']), len(m['not_applicable'])))
