#!/bin/bash
# mkworktree.sh <dir>: scratch git worktree of /repo HEAD plus the generated (untracked) build files so that it builds
set -e
D=$1
git -C /repo worktree prune
rm -rf "$D"
git -C /repo worktree add --detach "$D" HEAD >/dev/null 2>&1
rsync -a --ignore-existing --exclude .git --exclude '*.o' --exclude bench --exclude '*.log' --exclude snapraid --exclude mktest --exclude mkstream /repo/ "$D"/
cd "$D" && touch aclocal.m4 configure Makefile.in config.h.in && sleep 1 && touch config.status config.h stamp-h1 Makefile
echo "$D ready"
