#!/bin/bash
# prof.sh <ID> <job regex> <seconds> [extra cbmc flags]: build the goto binary of one job, then run cbmc symex only (no solver)
# with --verbosity 10 and print the places where symbolic execution stalls for >= 3 s.  Development aid, not a check.
ID=$1; RE=$2; SEC=${3:-120}; shift 3
cd /verif
export VERIF_KEEP=1
rm -f /var/tmp/prof.gb
( timeout 120 python3 bin/check $ID --no-evidence-file --only "$RE" > /var/tmp/prof.check.log 2>&1 & )
for i in $(seq 1 100); do
  gb=$(ls -t /var/tmp/verif-*/jobs/*/all.gb 2>/dev/null | head -1)
  if [ -n "$gb" ] && [ $(( $(date +%s) - $(stat -c %Y "$gb") )) -ge 2 ] && pgrep -x cbmc > /dev/null; then cp "$gb" /var/tmp/prof.gb; break; fi
  sleep 1
done
p=$(pgrep -f "python3 bin/chec[k] $ID --no-evidence-file"); [ -n "$p" ] && kill $p
sleep 1
entry=$(grep -ao "\-\-function [a-z0-9_]*" /var/tmp/prof.check.log | head -1 | awk '{print $2}')
echo "binary: $gb"
