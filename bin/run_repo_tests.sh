#!/bin/bash
# run the repository's own test-suite (make check) on a scratch copy of /repo's working tree (no verification guard defined);
# prints the split:grow/shrink lines (the 18 baseline tests are these log lines) and exits with make's status
WT=${1:-/var/tmp/verif-wt-tests}
rm -rf "$WT"; mkdir -p "$WT"
rsync -a --exclude .git /repo/ "$WT"/
cd "$WT" || exit 2
( make -j16 >/dev/null 2>&1 && make check > check.out 2>&1 ); rc=$?
echo "make check rc=$rc"
grep -h -o "split:\(grow\|shrink\):[^:]*:[0-9]*" check.out *.log 2>/dev/null | sort -u | head -40
tail -5 check.out
cd /; rm -rf "$WT"
exit $rc
