#!/bin/bash
# run the repository's own test-suite (make check) on a scratch copy of /repo's HEAD (guard off); prints the split: lines it produced
set -e
WT=${1:-/var/tmp/verif-wt-tests}
rm -rf "$WT"; git -C /repo worktree prune; git -C /repo worktree add --force --detach "$WT" HEAD >/dev/null 2>&1
cd "$WT"
( ./configure >/dev/null 2>&1 && make -j16 >/dev/null 2>&1 && make check > check.out 2>&1 ); rc=$?
echo "make check rc=$rc"
grep -h -o "split:\(grow\|shrink\):[^:]*:[0-9]*" check.out *.log 2>/dev/null | sort -u | head -40
tail -5 check.out
cd /; git -C /repo worktree remove --force "$WT"
exit $rc
