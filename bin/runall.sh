#!/bin/bash
# runall.sh [--tier T] ID...: run the listed checks one after another (each uses all cores), logs under /var/tmp/vlog/
T=quick; if [ "$1" = "--tier" ]; then T=$2; shift 2; fi
mkdir -p /var/tmp/vlog
cd "$(dirname "$0")/.."
for p in "$@"; do
  bin/check $p --tier $T > /var/tmp/vlog/$p.$T.log 2>&1; echo "EXIT $?" >> /var/tmp/vlog/$p.$T.log
done
