#!/bin/bash
# offline setup: nothing is downloaded or built ahead of time; every check regenerates its encoding from /repo on each run.
set -e
cd "$(dirname "$0")/.."
for t in cbmc goto-cc goto-instrument kissat gcc objcopy python3; do command -v $t >/dev/null || { echo "missing tool: $t"; exit 1; }; done
mkdir -p evidence replay
python3 -c "import json,sys; [json.loads(l) for l in open('properties.jsonl')]; json.load(open('MANIFEST.json'))"
echo "verif setup ok: $(cbmc --version)"
