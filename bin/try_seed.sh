#!/bin/bash
# try_seed.sh <seeded dir> <property> [extra args for bin/check]: apply a seeded change to /repo, run the check, undo the change
S=$1; P=$2; shift 2
cd /verif
git -C /repo apply "$(realpath $S)/patch.diff" || { echo "patch does not apply"; exit 3; }
bin/check $P --no-evidence-file "$@" 2>&1 | grep -a "^ *[0-9.]*s \|VIOLATION\|BROKEN\|KNOWN\|^$P " | grep -v "PASS\|engine/" | cut -c1-260
rc=${PIPESTATUS[0]}
git -C /repo checkout -- .
echo "check exit code: $rc (expected 1)"
