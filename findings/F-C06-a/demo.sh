#!/bin/bash
# Native demonstration of finding F-C06-a against the real snapraid built from /repo's current tree:
# the autosave of sync (and its final flush) runs parity_sync() + state_write() while parity writes of the last processed stripes
# are still queued in the writer threads; a process death right after the autosave leaves a content file that declares synced a
# stripe whose parity was never written.  exit 1 = defect present, exit 0 = not present.  Scratch under /var/tmp, removed at the end.
set -u
W=$(mktemp -d /var/tmp/verif-fc06a-XXXXXX); [ -n "${KEEP:-}" ] || trap 'rm -rf "$W"' EXIT
HERE=$(cd "$(dirname "$0")" && pwd)
rsync -a --exclude .git /repo/ "$W/src/" >/dev/null
( cd "$W/src" && make -j16 snapraid >/dev/null 2>&1 ) || { echo "build failed"; exit 2; }
S="$W/src/snapraid"; F="--test-skip-device --test-skip-self"
gcc -shared -fPIC -O1 -o "$W/shim.so" "$HERE/shim.c" -ldl || exit 2
mkdir -p "$W/d1" "$W/d2" "$W/p" "$W/c"
cat > "$W/conf" <<EOC
blocksize 1
parity $W/p/parity
content $W/c/content
content $W/d1/content
data d1 $W/d1
data d2 $W/d2
EOC
head -c 3000 /dev/urandom > "$W/d1/a"; head -c 3000 /dev/urandom > "$W/d2/b"
"$S" -c "$W/conf" $F --test-io-cache=8 sync > "$W/log1" 2>&1 || { echo "first sync failed"; cat "$W/log1"; exit 2; }
# 40 new stripes (3..42).  The parity write of stripe 8 is slow (3 s); an autosave is forced at stripe 10; the process dies right after
# the autosave has renamed its second content copy (renames 1-2 belong to the save before the sync, 3-4 to the autosave).
head -c 40000 /dev/urandom > "$W/d1/new1"; head -c 40000 /dev/urandom > "$W/d2/new2"
SLOW_PATH=/p/parity SLOW_OFFSET=8192 SLOW_MS=3000 KILL_PATH=/content KILL_AT_RENAME=4 LD_PRELOAD="$W/shim.so" "$S" -c "$W/conf" $F --test-io-cache=8 --test-force-autosave-at 10 sync > "$W/log2" 2>&1; rc2=$?
echo "sync killed right after its autosave: exit status $rc2 (137 = SIGKILL)"
grep -a "Autosaving" "$W/log2" | head -1
# what the surviving content file says about stripe 8, and what the parity file holds there
"$S" -c "$W/conf" $F -l "$W/scrub.log" -p full scrub > "$W/log4" 2>&1; rc4=$?
echo "scrub of everything afterwards: exit status $rc4"
grep -a "^parity_error:\|^summary:error_data" "$W/scrub.log" | head -4
"$S" -c "$W/conf" $F status > "$W/log5" 2>&1
grep -a "bad\b\|DANGER" "$W/log5" | head -3
if [ "$rc2" = 137 ] && grep -aq "^parity_error:8:" "$W/scrub.log" && grep -aq "^summary:error_data:[1-9]" "$W/scrub.log"; then
	echo "F-C06-a reproduced: after the kill the content file declares stripe 8 synced, but its parity was still queued and never written (scrub reports a silent parity error there)"
	exit 1
fi
echo "F-C06-a not reproduced"
exit 0
