/* LD_PRELOAD shim for the F-C06-a demonstration:
 *  - pwrite() on a file whose path ends with $SLOW_PATH and whose range covers byte $SLOW_OFFSET sleeps $SLOW_MS first (a slow disk);
 *  - after the rename() number $KILL_AT_RENAME whose target ends with $KILL_PATH has been performed, the process dies (SIGKILL). */
#define _GNU_SOURCE
#include <dlfcn.h>
#include <errno.h>
#include <signal.h>
#include <stdio.h>
#include <stdlib.h>
#include <string.h>
#include <unistd.h>
#include <sys/types.h>
static int ends_with(const char* s, const char* e) { size_t ls = strlen(s), le = strlen(e); return ls >= le && strcmp(s + ls - le, e) == 0; }
static int match(int fd, size_t size, off_t offset)
{
	const char* path = getenv("SLOW_PATH"); const char* off = getenv("SLOW_OFFSET");
	char link[64], target[4096]; ssize_t n; long long at;
	if (!path || !off) return 0;
	at = atoll(off);
	if (at < (long long)offset || at >= (long long)offset + (long long)size) return 0;
	snprintf(link, sizeof(link), "/proc/self/fd/%d", fd);
	n = readlink(link, target, sizeof(target) - 1);
	if (n <= 0) return 0;
	target[n] = 0;
	return ends_with(target, path);
}
ssize_t pwrite(int fd, const void* buf, size_t size, off_t offset)
{
	static ssize_t (*real)(int, const void*, size_t, off_t);
	if (!real) real = (ssize_t (*)(int, const void*, size_t, off_t))dlsym(RTLD_NEXT, "pwrite");
	if (match(fd, size, offset)) usleep(1000 * atoi(getenv("SLOW_MS") ? getenv("SLOW_MS") : "3000"));
	return real(fd, buf, size, offset);
}
ssize_t pwrite64(int fd, const void* buf, size_t size, off_t offset)
{
	static ssize_t (*real)(int, const void*, size_t, off_t);
	if (!real) real = (ssize_t (*)(int, const void*, size_t, off_t))dlsym(RTLD_NEXT, "pwrite64");
	if (match(fd, size, offset)) usleep(1000 * atoi(getenv("SLOW_MS") ? getenv("SLOW_MS") : "3000"));
	return real(fd, buf, size, offset);
}
int rename(const char* from, const char* to)
{
	static int (*real)(const char*, const char*); static int count; int r;
	const char* kp = getenv("KILL_PATH"); const char* kn = getenv("KILL_AT_RENAME");
	if (!real) real = (int (*)(const char*, const char*))dlsym(RTLD_NEXT, "rename");
	r = real(from, to);
	if (r == 0 && kp && kn && ends_with(to, kp) && ++count == atoi(kn)) kill(getpid(), SIGKILL);
	return r;
}
