#!/bin/bash
# Native demonstration of finding F-C08-c against the real snapraid built from /repo's current tree:
# a parity write that fails with EIO during sync leaves the stripe recorded as synced and not bad.
# exit 1 = defect present (prints what was observed), exit 0 = not present.  Scratch under /var/tmp, removed at the end.
set -u
W=$(mktemp -d /var/tmp/verif-fc08c-XXXXXX); [ -n "${KEEP:-}" ] || trap 'rm -rf "$W"' EXIT
HERE=$(cd "$(dirname "$0")" && pwd)
rsync -a --exclude .git /repo/ "$W/src/" >/dev/null
( cd "$W/src" && make -j16 snapraid >/dev/null 2>&1 ) || { echo "build failed"; exit 2; }
S="$W/src/snapraid"
gcc -shared -fPIC -O1 -o "$W/wshim.so" "$HERE/wshim.c" -ldl || exit 2
mkdir -p "$W/d1" "$W/d2" "$W/p" "$W/c"
cat > "$W/conf" <<EOC
blocksize 1
parity $W/p/parity
content $W/c/content
content $W/d1/content
data d1 $W/d1
data d2 $W/d2
EOC
head -c 3000 /dev/urandom > "$W/d1/a"; head -c 3000 /dev/urandom > "$W/d2/b"
"$S" -c "$W/conf" --test-skip-device --test-skip-self --test-io-cache=${IOCACHE:-8} sync > "$W/log1" 2>&1 || { echo "first sync failed"; cat "$W/log1"; exit 2; }
# new files: stripes 3.. are new (40 of them by default, more than the 8 queued blocks); the parity write of stripe 4 (byte offset 4096) fails
head -c ${NEWSIZE:-40000} /dev/urandom > "$W/d1/new1"; head -c ${NEWSIZE:-40000} /dev/urandom > "$W/d2/new2"
WFAIL_PATH=/p/parity WFAIL_OFFSET=4096 LD_PRELOAD="$W/wshim.so" "$S" -c "$W/conf" --test-skip-device --test-skip-self --test-io-cache=${IOCACHE:-8} sync > "$W/log2" 2>&1; rc2=$?
echo "sync with one failing parity write: exit status $rc2"; grep -a "io errors\|Input/Output\|marked as bad\|Everything OK" "$W/log2" | head -5
"$S" -c "$W/conf" --test-skip-device --test-skip-self status > "$W/log3" 2>&1; rc3=$?
grep -a "bad\|not synced\|sync is in progress\|No error detected\|unsynced" "$W/log3" | head -5
"$S" -c "$W/conf" --test-skip-device --test-skip-self -l "$W/scrub.log" -p full scrub > "$W/log4" 2>&1; rc4=$?
echo "scrub of everything afterwards: exit status $rc4"; grep -a "^parity_error\|^error:" "$W/scrub.log" | head -3
if grep -aq "No error detected" "$W/log3" && grep -aq "No sync is in progress" "$W/log3" && grep -aq "^parity_error:4:" "$W/scrub.log"; then
	echo "F-C08-c reproduced: stripe 4 was recorded as synced and healthy although its parity write failed (scrub finds stale parity there)"
	[ "$rc2" = 0 ] && echo "F-C08-b reproduced: the failing sync ended with status 0 (the error of one of the last queued stripes was never collected)"
	exit 1
fi
echo "F-C08-c not reproduced"
exit 0
