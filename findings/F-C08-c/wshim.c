/* LD_PRELOAD fault injector: pwrite() on a file whose path ends with $WFAIL_PATH fails with EIO when the range covers byte $WFAIL_OFFSET */
#define _GNU_SOURCE
#include <dlfcn.h>
#include <errno.h>
#include <stdio.h>
#include <stdlib.h>
#include <string.h>
#include <unistd.h>
#include <sys/types.h>
static int match(int fd, size_t size, off_t offset)
{
	const char* path = getenv("WFAIL_PATH"); const char* off = getenv("WFAIL_OFFSET");
	char link[64], target[4096]; ssize_t n; long long bad;
	if (!path || !off) return 0;
	bad = atoll(off);
	if (bad < (long long)offset || bad >= (long long)offset + (long long)size) return 0;
	snprintf(link, sizeof(link), "/proc/self/fd/%d", fd);
	n = readlink(link, target, sizeof(target) - 1);
	if (n <= 0) return 0;
	target[n] = 0;
	if ((size_t)n < strlen(path)) return 0;
	return strcmp(target + n - strlen(path), path) == 0;
}
ssize_t pwrite(int fd, const void* buf, size_t size, off_t offset)
{
	static ssize_t (*real)(int, const void*, size_t, off_t);
	if (!real) real = (ssize_t (*)(int, const void*, size_t, off_t))dlsym(RTLD_NEXT, "pwrite");
	if (match(fd, size, offset)) { errno = EIO; return -1; }
	return real(fd, buf, size, offset);
}
ssize_t pwrite64(int fd, const void* buf, size_t size, off_t offset)
{
	static ssize_t (*real)(int, const void*, size_t, off_t);
	if (!real) real = (ssize_t (*)(int, const void*, size_t, off_t))dlsym(RTLD_NEXT, "pwrite64");
	if (match(fd, size, offset)) { errno = EIO; return -1; }
	return real(fd, buf, size, offset);
}
