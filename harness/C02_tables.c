/* C02 - every lookup table the parity kernels read is consistent with GF(2^8)/0x11d and the documented generator matrix.
 * Indices are symbolic; expected matrices come from c02_expect.h, generated from the *definition* (lib/gf.py), not from tables.c. */
#include "internal.h"
#include "gf.h"
#include "vf.h"
#include "c02_expect.h"   /* EXP_CAUCHY[6][251], EXP_VANDER[3][251] */

static inline uint8_t ref_mul2(uint8_t a) { return (uint8_t)((a << 1) ^ ((a & 0x80) ? 0x1d : 0)); }
static inline uint8_t ref_div2(uint8_t a) { return (uint8_t)((a >> 1) ^ ((a & 1) ? 0x8e : 0)); }
#define RM_STEP if (b & 1) r ^= a; a = ref_mul2(a); b >>= 1;
static inline uint8_t ref_mul(uint8_t a, uint8_t b) { uint8_t r = 0; RM_STEP RM_STEP RM_STEP RM_STEP RM_STEP RM_STEP RM_STEP RM_STEP return r; }

void t_gfmul(void)
{
	uint8_t a = vf_in_u8(), b = vf_in_u8();
	VF_ASSERT(gfmul[a][b] == ref_mul(a, b), "gfmul[a][b] is the field product");
	VF_ASSERT(mul(a, b) == ref_mul(a, b), "mul()");
	VF_WITNESS();
}
void t_gfinv_exp(void)
{
	uint8_t a = vf_in_u8(), i = vf_in_u8();
	if (a != 0) VF_ASSERT(ref_mul(gfinv[a], a) == 1, "gfinv[a] * a == 1");
	VF_ASSERT(gfexp[0] == 1, "2^0");
	if (i < 255) VF_ASSERT(gfexp[i + 1] == ref_mul2(gfexp[i]), "gfexp[i+1] == 2*gfexp[i]");
	VF_WITNESS();
}
void t_matrix(void)
{
	uint8_t r = vf_in_u8(), i = vf_in_u8();
	VF_ASSUME(i < 251);
	if (r < 6) VF_ASSERT(gfcauchy[r][i] == EXP_CAUCHY[r][i], "gfcauchy is the normalised extended Cauchy matrix 1/(2^-i + 2^(r-1))");
	if (r < 3) VF_ASSERT(gfvandermonde[r][i] == EXP_VANDER[r][i], "gfvandermonde is 1, 2^i, 2^-i");
	/* structural facts of the definition, decided on the real table */
	VF_ASSERT(gfcauchy[0][i] == 1 && gfcauchy[1][i] == gfexp[i], "rows 0 and 1");
	if (i + 1 < 251) VF_ASSERT(gfvandermonde[2][i + 1] == ref_div2(gfvandermonde[2][i]), "power row 2^-i");
	VF_WITNESS();
}
void t_pshufb(void)
{
	uint8_t a = vf_in_u8(), i = vf_in_u8(), r = vf_in_u8(), k = vf_in_u8();
	VF_ASSUME(i < 251 && r < 4 && k < 16);
	VF_ASSERT(gfgenpshufb[i][r][0][k] == ref_mul(EXP_CAUCHY[r + 2][i], k), "low-nibble product table of the Cauchy coefficient");
	VF_ASSERT(gfgenpshufb[i][r][1][k] == ref_mul(EXP_CAUCHY[r + 2][i], (uint8_t)(k << 4)), "high-nibble product table of the Cauchy coefficient");
	VF_ASSERT(gfmulpshufb[a][0][k] == ref_mul(a, k), "gfmulpshufb low");
	VF_ASSERT(gfmulpshufb[a][1][k] == ref_mul(a, (uint8_t)(k << 4)), "gfmulpshufb high");
	VF_WITNESS();
}
/* the multiply/divide-by-2 bit tricks on packed bytes, for all 2^32 / 2^64 words */
void t_bittricks(void)
{
	uint64_t v = vf_in_u64(); unsigned k;
	uint64_t x = x2_64(v), d = d2_64(v);
	uint32_t x3 = x2_32((uint32_t)v), d3 = d2_32((uint32_t)v);
	for (k = 0; k < 8; ++k) {
		uint8_t b = (uint8_t)(v >> (8 * k));
		VF_ASSERT((uint8_t)(x >> (8 * k)) == ref_mul(2, b), "x2_64 multiplies every byte by 2");
		VF_ASSERT((uint8_t)(d >> (8 * k)) == ref_mul(0x8e, b), "d2_64 divides every byte by 2");
		if (k < 4) {
			VF_ASSERT((uint8_t)(x3 >> (8 * k)) == ref_mul(2, b), "x2_32");
			VF_ASSERT((uint8_t)(d3 >> (8 * k)) == ref_mul(0x8e, b), "d2_32");
		}
	}
	VF_WITNESS();
}
/* the constant-multiplier tables the generated oracles use (nibble split and full) equal shift-and-reduce multiplication */
void t_oracle_tables(void)
{
	uint8_t c = vf_in_u8(), x = vf_in_u8();
	VF_ASSERT((uint8_t)(EXP_LO[c][x & 15] ^ EXP_HI[c][x >> 4]) == ref_mul(c, x), "nibble-split product tables of the oracle");
	VF_ASSERT(EXP_FULL[c][x] == ref_mul(c, x), "full product table of the oracle");
	VF_WITNESS();
}
#ifdef NEGCTL
void t_negctl(void)
{
	uint8_t a = vf_in_u8(), b = vf_in_u8();
	VF_ASSERT(gfmul[a][b] == ref_mul(a, b) || a != 0xc8, "WRONG ORACLE shape");
	VF_ASSERT(gfmul[a][b] == (uint8_t)(ref_mul(a, b) ^ (a == 200 && b == 201)), "WRONG ORACLE: one flipped bit in one of 65536 entries");
}
#endif
