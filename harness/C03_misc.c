/*
 * C03 - the parts around the decoders: raid_invert on generator sub-matrices chosen by symbolic row/column indices (every
 * 1x1 / 2x2 (3x3 thorough) minor over ALL 251 columns is invertible and the computed inverse is right), the consistency
 * test raid_validate()/raid_check() of raid/check.c (accepts the true failure set, rejects any candidate set that leaves one
 * further corrupted block unlisted), raid_check's index bookkeeping, and combination_next() of raid/combo.h.
 */
#include "internal.h"
#include "gf.h"
#include "combo.h"
#include "vf.h"
#include "c02_expect.h"
#if defined(TABLE_SUBST) && !defined(VF_NATIVE)
/* substitute for table() of raid/gf.h (CBMC 6.11 row-pointer defect, DESIGN.md 2.1a) */
#include "vf_rows.h"
const uint8_t* __CPROVER_file_local_gf_h_table(uint8_t v) { return vf_rows[v]; }
#endif

static inline uint8_t ref_mul2(uint8_t a) { return (uint8_t)((a << 1) ^ ((a & 0x80) ? 0x1d : 0)); }
#define RM_STEP if (b & 1) r ^= a; a = ref_mul2(a); b >>= 1;
static inline uint8_t ref_mul(uint8_t a, uint8_t b) { uint8_t r = 0; RM_STEP RM_STEP RM_STEP RM_STEP RM_STEP RM_STEP RM_STEP RM_STEP return r; }

#ifndef NINV
#define NINV 2
#endif
#ifndef NCOL
#define NCOL 251
#endif
void c03_invert(void)
{
	uint8_t M[NINV * NINV], M0[NINV * NINV], V[NINV * NINV]; int ip[NINV], id[NINV]; int j, k, l;
	for (j = 0; j < NINV; ++j) { ip[j] = vf_in_u8(); id[j] = vf_in_u8(); VF_ASSUME(ip[j] < 6 && id[j] < NCOL); if (j) VF_ASSUME(ip[j - 1] < ip[j] && id[j - 1] < id[j]); }
	for (j = 0; j < NINV; ++j) for (k = 0; k < NINV; ++k) M0[j * NINV + k] = M[j * NINV + k] = gfcauchy[ip[j]][id[k]];
	raid_invert(M, V, NINV);      /* its BUG_ON (zero pivot) is an assertion the solver must discharge: the minor is not singular */
	for (j = 0; j < NINV; ++j) for (k = 0; k < NINV; ++k) {
		uint8_t s = 0;
		for (l = 0; l < NINV; ++l) s ^= ref_mul(M0[j * NINV + l], V[l * NINV + k]);
		VF_ASSERT(s == (j == k), "M * M^-1 == I for every sub-matrix of the generator chosen by increasing rows and columns");
	}
	VF_WITNESS();
}

void c03_combination(void)
{
	int c[4], c0[4], t[4]; int r = vf_in_u8(), n = vf_in_u8(), i, ret; int last = 1, lt_ct = 0, lt_tc = 0, dec;
	VF_ASSUME(r >= 1 && r <= 4 && n >= r && n <= 9);
	for (i = 0; i < 4; ++i) { c[i] = vf_in_u8(); t[i] = vf_in_u8(); }
	for (i = 0; i < 4; ++i) if (i < r) { VF_ASSUME(c[i] >= 0 && c[i] < n && t[i] >= 0 && t[i] < n); if (i) VF_ASSUME(c[i - 1] < c[i] && t[i - 1] < t[i]); c0[i] = c[i]; if (c[i] != n - r + i) last = 0; }
	ret = combination_next(r, n, c);
	VF_ASSERT((ret == 0) == (last != 0), "returns 0 exactly at the last combination");
	if (ret) {
		for (i = 0; i < 4; ++i) if (i < r) { VF_ASSERT(c[i] >= 0 && c[i] < n, "in range"); if (i) VF_ASSERT(c[i - 1] < c[i], "strictly increasing"); }
		/* lexicographic successor: c0 < c, and no admissible tuple t with c0 < t < c */
		dec = 0; for (i = 0; i < 4; ++i) if (i < r && !dec) { if (c0[i] < c[i]) { lt_ct = 1; dec = 1; } else if (c0[i] > c[i]) dec = 1; }
		VF_ASSERT(lt_ct, "the result is greater than the argument");
		dec = 0; lt_ct = 0; for (i = 0; i < 4; ++i) if (i < r && !dec) { if (c0[i] < t[i]) { lt_ct = 1; dec = 1; } else if (c0[i] > t[i]) dec = 1; }
		dec = 0; for (i = 0; i < 4; ++i) if (i < r && !dec) { if (t[i] < c[i]) { lt_tc = 1; dec = 1; } else if (t[i] > c[i]) dec = 1; }
		VF_ASSERT(!(lt_ct && lt_tc), "no combination is skipped");
	}
	VF_WITNESS();
}

/* ---- consistency test ---- */
int __CPROVER_file_local_check_c_raid_validate(int nr, int *id, int nv, int *ip, int nd, size_t size, void **vv);
#ifndef VND
#define VND 2
#endif
#define VNP 3
#define VSZ 8
#ifndef LISTED      /* candidate failure set, as a bit mask over the VND+VNP blocks (enumerated by the driver) */
#define LISTED 0
#endif
#ifndef EXTRA       /* the further corrupted block that is NOT listed (or -1: none -> the set must be accepted) */
#define EXTRA -1
#endif
void c03_validate(void)
{
	static struct vf_blk8 B[VND + VNP]; void* v[VND + VNP]; int id[VND], ip[VNP], nr = 0, nv = 0, i, b, ret;
	raid_gfgen = gfcauchy;
	for (i = 0; i < VND; ++i) B[i] = vf_in_blk8();
	for (b = 0; b < VSZ; ++b) for (i = 0; i < VNP; ++i) { uint8_t a = 0; int d; for (d = 0; d < VND; ++d) a ^= ref_mul(EXP_CAUCHY[i][d], B[d].b[b]); B[VND + i].b[b] = a; }
	for (i = 0; i < VND + VNP; ++i) {
		if (LISTED & (1 << i)) { B[i] = vf_in_blk8(); if (i < VND) id[nr++] = i; }      /* listed as failed: holds anything */
		else if (i >= VND) ip[nv++] = i - VND;                                           /* parity taken as valid */
	}
	if (EXTRA >= 0) { struct vf_blk8 d = vf_in_blk8(); int nz = 0; for (b = 0; b < VSZ; ++b) { nz |= d.b[b]; B[EXTRA].b[b] ^= d.b[b]; } VF_ASSUME(nz != 0); }
	for (i = 0; i < VND + VNP; ++i) v[i] = B[i].b;
	VF_ASSUME(nr < nv);    /* precondition: at least one spare parity */
	ret = __CPROVER_file_local_check_c_raid_validate(nr, id, nv, ip, VND, VSZ, v);
	if (EXTRA < 0) VF_ASSERT(ret == 0, "the true failure set is accepted");
	else VF_ASSERT(ret != 0, "a candidate set that leaves one further corrupted block unlisted is rejected");
	VF_WITNESS();
}
/* raid_check's index bookkeeping: which data indexes / valid parities it hands to raid_validate (recorder in its place) */
static int r_nr, r_nv, r_id[6], r_ip[6], r_nd, r_calls;
#ifdef RECORDER
int __CPROVER_file_local_check_c_raid_validate(int nr, int *id, int nv, int *ip, int nd, size_t size, void **vv)
{
	int i; (void)size; (void)vv; ++r_calls; r_nr = nr; r_nv = nv; r_nd = nd;
	for (i = 0; i < 6; ++i) { if (i < nr) r_id[i] = id[i]; if (i < nv) r_ip[i] = ip[i]; }
	return 0;
}
void c03_check_index(void)
{
	int ir[3], nr = vf_in_u8(), nd = vf_in_u8(), np = vf_in_u8(), i, k, e; void* v[12];
	VF_ASSUME(nd >= 1 && nd <= 5 && np >= 1 && np <= 6 && nr >= 0 && nr < np && nr <= 3);
	for (i = 0; i < 3; ++i) { ir[i] = vf_in_u8(); if (i < nr) { VF_ASSUME(ir[i] < nd + np); if (i) VF_ASSUME(ir[i - 1] < ir[i]); } }
	raid_check(nr, ir, nd, np, 64, v);
	VF_ASSERT(r_calls == 1 && r_nd == nd, "one validation");
	e = 0; for (i = 0; i < 3; ++i) if (i < nr && ir[i] < nd) { VF_ASSERT(r_id[e] == ir[i], "failed data indexes passed in order"); ++e; }
	VF_ASSERT(r_nr == e, "number of failed data blocks");
	e = 0;
	for (k = 0; k < 6; ++k) if (k < np) { int listed = 0; for (i = 0; i < 3; ++i) if (i < nr && ir[i] == nd + k) listed = 1; if (!listed) { VF_ASSERT(r_ip[e] == k, "every parity not listed as failed is used for the validation, in order"); ++e; } }
	VF_ASSERT(r_nv == e, "number of valid parities = all parities not listed");
	VF_WITNESS();
}
#endif
#ifdef NEGCTL
void c03_negctl(void)
{
	int c[2] = { 0, 0 }; int n = vf_in_u8(), ret; c[0] = vf_in_u8(); c[1] = vf_in_u8();
	VF_ASSUME(n >= 2 && n <= 9 && c[0] >= 0 && c[0] < c[1] && c[1] < n);
	ret = combination_next(2, n, c);
	VF_ASSERT(ret == 1, "WRONG ORACLE: there is always a next combination");
}
#endif
