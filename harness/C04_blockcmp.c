/*
 * C04 - the comparison that decides whether a block read from disk (or rebuilt) is the synced one: the real blockcmp() of
 * cmdline/check.c (hash over the valid part + zero padding test of the last block), hash = injective uninterpreted function.
 * Any change of any byte of the block - inside the file's part or in the padding - is detected; the unchanged block passes.
 */
#include "portable.h"
#include "support.h"
#include "elem.h"
#include "state.h"
#include "vf.h"
#define UFBS 64
#define UFK 6
#define UF_SEED_MATTERS 1
#include "stubs/uf_hash.h"
#define BS 64
int __CPROVER_file_local_check_c_blockcmp(struct snapraid_state* state, int rehash, struct snapraid_block* block, unsigned pos_size, unsigned char* buffer, unsigned char* buffer_zero);
static struct snapraid_state S; static unsigned char BV[1 + HASH_MAX] __attribute__((aligned(8)));
static struct vf_blk64 WANT, GOT, ZERO;
void c04_blockcmp(void)
{
	int rehash = vf_in_u8() & 1, r, same = 1; unsigned len = vf_in_u8(), k; uint64_t d[2]; uint8_t hs = (vf_in_u8() & 1) ? 16 : 8;
	VF_ASSUME(len <= BS);
	BLOCK_HASH_SIZE = hs; S.block_size = BS; S.hash = HASH_MURMUR3; S.prevhash = HASH_SPOOKY2;
	WANT = vf_in_blk64(); GOT = vf_in_blk64();
	for (k = 0; k < BS; ++k) if (k >= len) WANT.b[k] = 0;         /* a synced block is zero padded beyond the file's bytes */
	if (rehash) uf_digest_seed(S.prevhash, S.prevhashseed, WANT.b, len, d); else uf_digest_seed(S.hash, S.hashseed, WANT.b, len, d);
	memcpy(((struct snapraid_block*)BV)->hash, d, 16);
	for (k = 0; k < HASH_MAX; ++k) if (k >= hs) ((struct snapraid_block*)BV)->hash[k] = vf_in_u8();   /* reduced hash: the following bytes belong to the next block */
	for (k = 0; k < BS; ++k) if (GOT.b[k] != WANT.b[k]) same = 0;
	r = __CPROVER_file_local_check_c_blockcmp(&S, rehash, (struct snapraid_block*)BV, len, GOT.b, ZERO.b);
	VF_ASSERT((r == 0) == (same != 0), "C04: the block is accepted exactly when every byte - file part and zero padding - equals the synced block");
	VF_WITNESS();
}
#ifdef NEGCTL
void c04_negctl(void)
{
	unsigned len = 10, k; uint64_t d[2]; int r;
	BLOCK_HASH_SIZE = 16; S.block_size = BS; S.hash = HASH_MURMUR3;
	WANT = vf_in_blk64(); for (k = len; k < BS; ++k) WANT.b[k] = 0; GOT = WANT; GOT.b[40] = vf_in_u8();
	uf_digest_seed(S.hash, S.hashseed, WANT.b, len, d); memcpy(((struct snapraid_block*)BV)->hash, d, 16);
	r = __CPROVER_file_local_check_c_blockcmp(&S, 0, (struct snapraid_block*)BV, len, GOT.b, ZERO.b);
	VF_ASSERT(r == 0, "WRONG ORACLE: padding bytes do not matter");
}
#endif
