/*
 * C06 / C08 / C19 (and the sync part of C07, C11, C12) - one stripe of the real state_sync_process() of cmdline/sync.c,
 * whole function, with the real sync_data_reader and sync_parity_writer, on the ABSTRACT data plane (DESIGN.md 2.4):
 *   block_size 8 = one 64-bit token per block; memhash = injective uninterpreted function of the token;
 *   raid_gen = fresh parity tokens + ghost record of the data vector they encode; raid_rec = contract stub;
 *   io_* = contract stubs re-stating the single-thread semantics (io.c itself is decided in C13 / the mono harness);
 *   handle_* / parity_* = stubs that return the ghost contents or an error chosen by the solver.
 * Pre-state: every combination allowed by the documented meaning of the block states (elem.h:73-173), per parity level the
 * old or the new data vector.  Post-condition: the array invariant INV (see asserts) for every outcome.
 */
#include "portable.h"
#include "support.h"
#include "elem.h"
#include "state.h"
#include "parity.h"
#include "handle.h"
#include "io.h"
#include "raid/raid.h"
#include "vf.h"
/* uninterpreted injective hash with concrete slots (stubs/uf_slots.h): [0,ND) recorded hashes of the pre-state, then per disk the
 * calls of the real code (first pass with the current / the previous hash kind, and the re-hash of a recovered block), then the
 * reference digests of what each parity level encodes and of the data on disk */

#ifndef ND
#define ND 2
#endif
#ifndef LEVEL
#define LEVEL 1
#endif
#define BS 8
#define UFS_N (ND + 3 * ND + (LEVEL > 0 ? LEVEL : 1) * ND + ND)
#include "stubs/uf_slots.h"

int __CPROVER_file_local_sync_c_state_sync_process(struct snapraid_state* state, struct snapraid_parity_handle* parity_handle, block_off_t blockstart, block_off_t blockmax);

enum { K_HOLE = 0, K_EMPTY, K_BLK, K_CHG, K_REP, K_DEL };

/* ---------------- the mini array ---------------- */
static struct snapraid_state S;
static struct snapraid_disk DK[ND];
static struct snapraid_file FL[ND];
static unsigned char BV[ND][1 + HASH_MAX] __attribute__((aligned(8)));
static struct snapraid_handle* HMAP;
static struct snapraid_parity_handle PH[LEVEL > 0 ? LEVEL : 1];
static snapraid_info infos[2]; static void* seg[2];
/* ghost */
static unsigned kind[ND];
static uint64_t tok_new[ND], tok_old[ND], tok_disk[ND];   /* recorded version / what old parity encodes / what a read returns now */
static uint64_t par_vec[LEVEL > 0 ? LEVEL : 1][ND];        /* data vector each parity level currently encodes */
static int attr_changed[ND], open_err[ND], read_err[ND];
static int wfail[LEVEL > 0 ? LEVEL : 1];                    /* answer of parity_write per level: 0 ok, 1 EIO, 2 other error */
static int parity_written[LEVEL > 0 ? LEVEL : 1], parity_synced_after_write = 1, state_written, data_mutated, dealloc[ND];
static int stop_now;
static int wfail_hit[LEVEL > 0 ? LEVEL : 1];      /* a parity write of this level was attempted and failed */
static int after_rec;       /* set by the raid_rec stub: later memhash calls are the re-hash of recovered blocks */

static struct snapraid_block* blk(unsigned j) { return (struct snapraid_block*)BV[j]; }
static int has_block(unsigned j) { return kind[j] >= K_BLK; }
static unsigned disk_index(struct snapraid_disk* d) { unsigned j; for (j = 0; j < ND; ++j) if (d == &DK[j]) return j; VF_ASSERT(0, "harness: unknown disk"); return 0; }

/* ---------------- elem.c / state.c stubs over the mini array ---------------- */
struct snapraid_block* fs_par2block_find(struct snapraid_disk* disk, block_off_t pos) { unsigned j = disk_index(disk); (void)pos; return has_block(j) ? blk(j) : BLOCK_NULL; }
/* fs_par2file_get is a static inline of elem.h that calls fs_par2file_find: the stub must be the latter (a body-less find returns an unconstrained pointer) */
struct snapraid_file* fs_par2file_find(struct snapraid_disk* disk, block_off_t pos, block_off_t* file_pos) { unsigned j = disk_index(disk); (void)pos; VF_ASSERT(kind[j] == K_BLK || kind[j] == K_CHG || kind[j] == K_REP, "file asked only for blocks that have one"); *file_pos = 0; return &FL[j]; }
void fs_deallocate(struct snapraid_disk* disk, block_off_t pos) { unsigned j = disk_index(disk); (void)pos; VF_ASSERT(kind[j] == K_DEL, "only deleted blocks are deallocated"); dealloc[j] = 1; kind[j] = K_EMPTY; }
struct snapraid_handle* handle_mapping(struct snapraid_state* state, unsigned* handlemax)
{
	unsigned j; (void)state;
	static struct snapraid_handle hm[ND]; HMAP = hm;
	for (j = 0; j < ND; ++j) { HMAP[j].disk = kind[j] == K_HOLE ? 0 : &DK[j]; HMAP[j].file = 0; HMAP[j].f = -1; HMAP[j].path[0] = 0; }
	*handlemax = ND;
	return HMAP;
}
void tommy_arrayblkof_grow(tommy_arrayblkof* array, tommy_size_t size) { VF_ASSERT(size <= array->count, "harness: info array preallocated"); }
time_t time(time_t* t) { time_t n = 1000000; if (t) *t = n; return n; }
/* size-bounded memcpy / memset / memcmp (<= 16 bytes on this data plane): CBMC's library models turn a call whose length is
 * read from a struct field into an array replace over every object in the program */
void* memcpy(void* dst, const void* src, size_t n)
{
	if (n == 8) { *(uint64_t*)dst = *(const uint64_t*)src; }
	else if (n == 16) { ((uint64_t*)dst)[0] = ((const uint64_t*)src)[0]; ((uint64_t*)dst)[1] = ((const uint64_t*)src)[1]; }
	else if (n == 4) { *(uint32_t*)dst = *(const uint32_t*)src; }
	else VF_ASSERT(n == 0, "harness: memcpy sizes 0/4/8/16 on this data plane");
	return dst;
}
unsigned memdiff(const unsigned char* a, const unsigned char* b, size_t n) { (void)a; (void)b; (void)n; return 1; }
void* memset(void* dst, int c, size_t n)
{
	uint64_t w = (uint64_t)(unsigned char)c * 0x0101010101010101ULL;
	if (n == 8) { *(uint64_t*)dst = w; }
	else if (n == 16) { ((uint64_t*)dst)[0] = w; ((uint64_t*)dst)[1] = w; }
	else VF_ASSERT(n == 0, "harness: memset sizes 0/8/16 on this data plane");
	return dst;
}
int memcmp(const void* a, const void* b, size_t n)
{
	if (n == 8) return *(const uint64_t*)a != *(const uint64_t*)b;
	if (n == 16) return ((const uint64_t*)a)[0] != ((const uint64_t*)b)[0] || ((const uint64_t*)a)[1] != ((const uint64_t*)b)[1];
	VF_ASSERT(n == 0, "harness: memcmp sizes 0/8/16 on this data plane (callers only test == 0)");
	return 0;
}
/* allocation: a bump allocator over a static pool (concrete offsets) and a no-op free(): with CBMC's malloc model the
 * pointers stored in heap arrays lose their targets and every later memcpy ranges over all objects (symex did not finish) */
static unsigned char pool[256] __attribute__((aligned(16))); static size_t pool_used;   /* <= the field-sensitivity bound given to cbmc: larger arrays lose constant propagation and every loop is then unrolled to the bound */
static void* pool_get(size_t size) { void* p = &pool[pool_used]; pool_used += (size + 15) & ~(size_t)15; VF_ASSERT(pool_used <= sizeof(pool), "harness: pool large enough"); return p; }
void free(void* p) { (void)p; }
/* allocations that hold pointers get typed static storage (a pointer read back from raw bytes loses its target in CBMC);
 * served by call order of state_sync_process: malloc_nofail -> failed[], failed_map, waiting_map; malloc_nofail_align -> rehandle[], zero */
struct failed_compat { unsigned index; unsigned size; struct snapraid_block* block; };       /* = struct failed_struct of sync.c */
struct rehash_compat { unsigned char hash[HASH_MAX]; struct snapraid_block* block; };        /* = struct snapraid_rehash of sync.c */
static struct failed_compat failed_store[ND]; static struct rehash_compat rehash_store[ND];
static int n_malloc, n_malloc_align;
void* malloc_nofail(size_t size) { if (n_malloc++ == 0) { VF_ASSERT(size == sizeof(failed_store), "harness: failed[] layout"); return failed_store; } return pool_get(size); }
void* calloc_nofail(size_t n, size_t size) { return pool_get(n * size); }
void* malloc_nofail_align(size_t size, void** freeptr) { void* p; if (n_malloc_align++ == 0) { VF_ASSERT(size == sizeof(rehash_store), "harness: rehandle[] layout"); p = rehash_store; } else p = pool_get(size); *freeptr = p; return p; }
static unsigned char copybuf[ND][BS] __attribute__((aligned(8))); static void* copyvec[ND];
void** malloc_nofail_vector_align(int nd, int n, size_t size, void** freeptr) { int i; (void)nd; VF_ASSERT(n == ND && size == BS, "copy vector"); for (i = 0; i < ND; ++i) copyvec[i] = copybuf[i]; *freeptr = copyvec; return copyvec; }
void pathcpy(char* dst, size_t size, const char* src) { (void)size; (void)src; dst[0] = 0; }
void os_abort(void) { VF_ASSERT(0, "os_abort reached (internal inconsistency)"); VF_STOP(); }
const char* esc_tag(const char* str, char* buffer) { (void)buffer; return str; }
const char* lev_config_name(unsigned l) { (void)l; return ""; }
const char* lev_name(unsigned l) { (void)l; return ""; }
const char* fmt_poll(const struct snapraid_disk* disk, const char* str, char* buffer) { (void)disk; (void)buffer; return str; }
char* strerror(int e) { (void)e; return ""; }
void state_usage_waste(struct snapraid_state* s) { (void)s; } void state_usage_misc(struct snapraid_state* s) { (void)s; } void state_usage_sched(struct snapraid_state* s) { (void)s; }
void state_usage_raid(struct snapraid_state* s) { (void)s; } void state_usage_hash(struct snapraid_state* s) { (void)s; } void state_usage_print(struct snapraid_state* s) { (void)s; }
void state_usage_file(struct snapraid_state* s, struct snapraid_disk* d, struct snapraid_file* f) { (void)s; (void)d; (void)f; }
void state_usage_disk(struct snapraid_state* s, struct snapraid_handle* h, unsigned* w, unsigned m) { (void)s; (void)h; (void)w; (void)m; }
void state_usage_parity(struct snapraid_state* s, unsigned* w, unsigned m) { (void)s; (void)w; (void)m; }
int state_progress_begin(struct snapraid_state* s, block_off_t a, block_off_t b, block_off_t c) { (void)s; (void)a; (void)b; (void)c; return 1; }
void state_progress_end(struct snapraid_state* s, block_off_t a, block_off_t b, data_off_t c) { (void)s; (void)a; (void)b; (void)c; }
int state_progress(struct snapraid_state* s, struct snapraid_io* io, block_off_t p, block_off_t a, block_off_t b, data_off_t c) { (void)s; (void)io; (void)p; (void)a; (void)b; (void)c; return stop_now; }
void state_progress_stop(struct snapraid_state* s) { (void)s; } void state_progress_restart(struct snapraid_state* s) { (void)s; }
static int any_unsynced_write(void) { unsigned l; for (l = 0; l < LEVEL; ++l) if (parity_written[l] == 1) return 1; return 0; }
void state_write(struct snapraid_state* s) { (void)s; VF_ASSERT(!any_unsynced_write(), "C06/C07: the content file is never written while a parity write since the last parity_sync is outstanding"); ++state_written; }
void qsort(void* base, size_t n, size_t size, int (*cmp)(const void*, const void*))
{
	/* insertion sort through the real comparison callback, on typed elements: swapping the bytes of a struct that holds a pointer
	 * turns the pointer into a byte-wise if-then-else that CBMC cannot dereference in reasonable time */
	struct failed_compat* a = base; size_t i, j; VF_ASSERT(n <= ND && size == sizeof(struct failed_compat), "harness: qsort stub sorts failed[] only");
	for (i = 1; i < n; ++i) for (j = i; j > 0 && cmp(&a[j - 1], &a[j]) > 0; --j) { struct failed_compat t = a[j]; a[j] = a[j - 1]; a[j - 1] = t; }
}

/* ---------------- handle / parity stubs ---------------- */
int handle_close(struct snapraid_handle* h) { h->file = 0; h->f = -1; return 0; }
int handle_open(struct snapraid_handle* h, struct snapraid_file* file, int mode, fptr* out, fptr* out_missing)
{
	unsigned j = disk_index(h->disk); (void)mode; (void)out; (void)out_missing;
	if (open_err[j]) { errno = open_err[j] == 1 ? ENOENT : (open_err[j] == 2 ? EACCES : EIO); return -1; }
	h->file = file; h->f = 3;
	h->st.st_size = file->size + (attr_changed[j] == 1); h->st.st_mtime = file->mtime_sec + (attr_changed[j] == 2);
	h->st.st_mtim.tv_nsec = file->mtime_nsec + (attr_changed[j] == 3); h->st.st_ino = file->inode + (attr_changed[j] == 4);
	return 0;
}
int handle_read(struct snapraid_handle* h, block_off_t file_pos, unsigned char* buf, unsigned size, fptr* out, fptr* out_missing)
{
	unsigned j = disk_index(h->disk); (void)file_pos; (void)out; (void)out_missing;
	VF_ASSERT(size == BS, "block size");
	if (read_err[j]) { errno = read_err[j] == 1 ? EIO : EINVAL; return -1; }
	memcpy(buf, &tok_disk[j], 8);
	return BS;
}
int handle_write(struct snapraid_handle* h, block_off_t p, unsigned char* b, unsigned s) { (void)h; (void)p; (void)b; (void)s; data_mutated = 1; VF_ASSERT(0, "C07/C12: sync never writes a data file"); return -1; }
int handle_create(struct snapraid_handle* h, struct snapraid_file* f, int m) { (void)h; (void)f; (void)m; data_mutated = 1; VF_ASSERT(0, "C07/C12: sync never creates a data file"); return -1; }
int handle_truncate(struct snapraid_handle* h, struct snapraid_file* f) { (void)h; (void)f; data_mutated = 1; VF_ASSERT(0, "C07/C12: sync never truncates a data file"); return -1; }

static uint64_t gen_id[LEVEL > 0 ? LEVEL : 1], gen_vec[LEVEL > 0 ? LEVEL : 1][ND]; static int gen_valid;
static uint64_t rd_id[LEVEL > 0 ? LEVEL : 1]; static int rd_valid[LEVEL > 0 ? LEVEL : 1];
static void** cur_buffer;
int parity_read(struct snapraid_parity_handle* h, block_off_t pos, unsigned char* buf, unsigned size, fptr* out)
{
	unsigned l = h->level; (void)pos; (void)out; VF_ASSERT(size == BS && l < LEVEL, "parity_read");
	rd_id[l] = vf_in_u64(); rd_valid[l] = 1; memcpy(buf, &rd_id[l], 8);
	return BS;
}
int parity_write(struct snapraid_parity_handle* h, block_off_t pos, unsigned char* buf, unsigned size)
{
	unsigned l = h->level, j; uint64_t t; (void)pos;
	VF_ASSERT(size == BS && l < LEVEL, "parity_write");
	if (wfail[l]) { wfail_hit[l] = 1; errno = wfail[l] == 1 ? EIO : ENOSPC; return -1; }
	memcpy(&t, buf, 8);
	VF_ASSERT(gen_valid && t == gen_id[l], "what is written to parity level l is what raid_gen produced for level l in this iteration");
	for (j = 0; j < ND; ++j) par_vec[l][j] = gen_vec[l][j];
	parity_written[l] = 1;
	return 0;
}
int parity_sync(struct snapraid_parity_handle* h) { unsigned l = h->level; if (parity_written[l] == 1) parity_written[l] = 2; return 0; }

/* ---------------- raid stubs (abstract data plane) ---------------- */
void raid_zero(void* zero) { (void)zero; }
void raid_gen(int nd, int np, size_t size, void** v)
{
	int l, j;
	VF_ASSERT(nd == ND && np == LEVEL && size == BS, "raid_gen geometry");
	for (l = 0; l < np; ++l) {
		gen_id[l] = vf_in_u64();
		for (j = 0; j < nd; ++j) memcpy(&gen_vec[l][j], v[j], 8);
		memcpy(v[nd + l], &gen_id[l], 8);
	}
	gen_valid = 1;
}
void raid_rec(int nr, int* ir, int nd, int np, size_t size, void** v)
{
	/* contract: indices sorted, distinct, in range, nr <= np; the listed data blocks are overwritten: with the vector the parities
	 * read encode when every parity level read encodes the same vector and agrees with the survivors, with anything otherwise */
	int i, j, l, consistent = 1;
	after_rec = 1;
	VF_ASSERT(nd == ND && np == LEVEL && size == BS && nr >= 0 && nr <= np, "C03 precondition: nr <= np");
	for (i = 0; i < nr; ++i) { VF_ASSERT(ir[i] >= 0 && ir[i] < nd + np, "C03 precondition: index in range"); if (i) VF_ASSERT(ir[i - 1] < ir[i], "C03 precondition: indices sorted (C13: arrival order varies)"); }
	for (l = 0; l < np; ++l) { uint64_t t; memcpy(&t, v[nd + l], 8); if (!(rd_valid[l] && t == rd_id[l])) consistent = 0; }
	for (l = 0; l < np; ++l) for (j = 0; j < nd; ++j) {
		int listed = 0; uint64_t t;
		for (i = 0; i < nr; ++i) if (ir[i] == j) listed = 1;
		memcpy(&t, v[j], 8);
		if (!listed && par_vec[l][j] != t) consistent = 0;
		if (par_vec[l][j] != par_vec[0][j]) consistent = 0;
	}
	for (i = 0; i < nr; ++i) if (ir[i] < nd) { uint64_t t = consistent ? par_vec[0][ir[i]] : vf_in_u64(); memcpy(v[ir[i]], &t, 8); }
}

/* ---------------- io contract stubs: single-thread semantics (cmdline/io.c *_mono) ---------------- */
static struct snapraid_io* IOP; static struct snapraid_worker RW[ND], WW[LEVEL > 0 ? LEVEL : 1];
/* tasks live in their own small objects: the 128-slot task_map inside each worker would make every field write a whole-array update */
static struct snapraid_task TKR[ND], TKW[LEVEL > 0 ? LEVEL : 1];
static unsigned char dbuf[ND + LEVEL + 1][BS] __attribute__((aligned(8))); static void* bufvec[ND + LEVEL + 1];
static bit_vect_t* enabled; static int served, rd_next, wr_next; static int werr_count[IO_WRITER_ERROR_MAX];
static unsigned order[ND];
void io_init(struct snapraid_io* io, struct snapraid_state* state, unsigned io_cache, unsigned buffer_max,
	void (*data_reader)(struct snapraid_worker*, struct snapraid_task*), struct snapraid_handle* handle_map, unsigned handle_max,
	void (*parity_reader)(struct snapraid_worker*, struct snapraid_task*), void (*parity_writer)(struct snapraid_worker*, struct snapraid_task*),
	struct snapraid_parity_handle* parity_handle_map, unsigned parity_handle_max)
{
	unsigned i; (void)io_cache; (void)parity_reader;
	VF_ASSERT(handle_max == ND && parity_handle_max == LEVEL && buffer_max == ND + LEVEL, "io_init geometry");
	IOP = io; io->state = state; io->data_reader = data_reader; io->parity_writer = parity_writer;
	for (i = 0; i < ND; ++i) { RW[i].io = io; RW[i].handle = &handle_map[i]; RW[i].parity_handle = 0; RW[i].func = data_reader; }
	for (i = 0; i < LEVEL; ++i) { WW[i].io = io; WW[i].handle = 0; WW[i].parity_handle = &parity_handle_map[i]; WW[i].func = parity_writer; }
	for (i = 0; i < ND + LEVEL + 1; ++i) bufvec[i] = dbuf[i];
}
void io_done(struct snapraid_io* io) { (void)io; }
static void st_start(struct snapraid_io* io, block_off_t a, block_off_t b, bit_vect_t* en) { (void)io; VF_ASSERT(a == 0 && b == 1, "one stripe"); enabled = en; served = 0; }
static int pending_write[LEVEL > 0 ? LEVEL : 1];
static void st_stop(struct snapraid_io* io)
{
	unsigned l; (void)io;
	for (l = 0; l < LEVEL; ++l) if (pending_write[l]) { pending_write[l] = 0; WW[l].func(&WW[l], &TKW[l]); }      /* queued writes drain before the workers exit (io.c:392-397) */
}
static int rn_calls;
static block_off_t st_read_next(struct snapraid_io* io, void*** buffer)
{
	(void)io; *buffer = bufvec; cur_buffer = bufvec;
	if (rn_calls++ > 0) return 1;                       /* concrete call counter: with a symbolic 'served' test the stripe loop is unrolled to the bound */
	rd_next = 0; wr_next = 0; gen_valid = 0;
	if (!bit_vect_test(enabled, 0)) return 1;    /* >= blockmax: nothing (more) to do */
	served = 1;
	return 0;
}
static struct snapraid_task* st_data_read(struct snapraid_io* io, unsigned* diskcur, unsigned* wm, unsigned* wmac)
{
	unsigned j; struct snapraid_task* t; (void)io;
	VF_ASSERT(rd_next < ND, "each disk is read once per stripe");
	j = order[rd_next++];
	t = &TKR[j];
	t->state = TASK_STATE_READY; t->path[0] = 0; t->disk = HMAP[j].disk; t->buffer = dbuf[j]; t->position = 0; t->block = 0; t->file = 0; t->file_pos = 0; t->read_size = 0; t->is_timestamp_different = 0;
	RW[j].func(&RW[j], t);          /* the real sync_data_reader */
	*diskcur = j; wm[0] = j; *wmac = 1;
	return t;
}
static int preset_skip;
static void st_write_preset(struct snapraid_io* io, block_off_t cur, int skip) { unsigned k; (void)io; (void)cur; preset_skip = skip; for (k = 0; k < IO_WRITER_ERROR_MAX; ++k) werr_count[k] = 0; }
static void st_parity_write(struct snapraid_io* io, unsigned* levcur, unsigned* wm, unsigned* wmac)
{
	unsigned l; struct snapraid_task* t; (void)io;
	VF_ASSERT(wr_next < LEVEL, "each level written once per stripe");
	l = wr_next++;
	t = &TKW[l];
	t->state = preset_skip ? TASK_STATE_EMPTY : TASK_STATE_READY; t->buffer = preset_skip ? (unsigned char*)0 : &dbuf[ND + l][0]; t->position = 0;
	if (t->state != TASK_STATE_EMPTY) {
#ifdef DEFERRED_WRITES
		pending_write[l] = 1;       /* the contract of the threaded layer (io.c io_write_next_thread / io_writer_step): the write is only queued; a writer thread
		                             * performs it later - at the latest before io_stop() returns - and its error is counted when a LATER stripe is scheduled */
#else
		WW[l].func(&WW[l], t);      /* the real sync_parity_writer */
		if (t->state < 0) ++werr_count[t->state - IO_WRITER_ERROR_BASE];   /* ideal contract: every failed write is counted for its own stripe */
#endif
	}
	*levcur = l; wm[0] = l; *wmac = 1;
}
static void st_write_next(struct snapraid_io* io, block_off_t cur, int skip, int* writer_error) { unsigned k; (void)io; (void)cur; (void)skip; for (k = 0; k < IO_WRITER_ERROR_MAX; ++k) writer_error[k] = werr_count[k]; }
static void st_refresh(struct snapraid_io* io) { (void)io; }

/* ---------------- pre-state ---------------- */
static void set_hash_tok(unsigned j, uint64_t tok) { uint64_t d[2]; ufs_digest(j, S.hash, tok, d); memcpy(blk(j)->hash, d, 16); }
static uint64_t hash_lo(unsigned j) { uint64_t d; memcpy(&d, blk(j)->hash, 8); return d; }
static uint64_t d_par[LEVEL > 0 ? LEVEL : 1][ND], d_disk[ND];      /* reference digests, computed once after the run */
static void post_digests(void)
{
	unsigned j, l; uint64_t d[2];
	for (l = 0; l < LEVEL; ++l) for (j = 0; j < ND; ++j) { ufs_digest(4 * ND + l * ND + j, S.hash, par_vec[l][j], d); d_par[l][j] = d[0]; }
	for (j = 0; j < ND; ++j) { ufs_digest(4 * ND + (LEVEL > 0 ? LEVEL : 1) * ND + j, S.hash, tok_disk[j], d); d_disk[j] = d[0]; }
}
void memhash(unsigned kind, const unsigned char* seed, void* digest, const void* src, size_t size)
{
	unsigned j, slot = UFS_N; uint64_t w, d[2]; (void)seed;
	VF_ASSERT(size == BS, "harness: whole blocks are hashed");
	for (j = 0; j < ND; ++j) if (src == (const void*)dbuf[j]) slot = ND + 3 * j + (after_rec ? 2 : (kind == S.prevhash ? 1 : 0));
	memcpy(&w, src, 8);
	ufs_digest(slot, kind, w, d);
	memcpy(digest, d, 16);
}
static uint64_t oldv[ND], newv[ND];

static void pre_state(void)
{
	unsigned j, l;
	BLOCK_HASH_SIZE = 16;
	S.level = LEVEL; S.block_size = BS; S.hash = HASH_MURMUR3; S.prevhash = HASH_SPOOKY2; S.clear_past_hash = 1; S.autosave = 0;
	S.opt.io_error_limit = 100; S.opt.force_full = 0; S.opt.force_parity_update = 0; S.opt.force_autosave_at = 0; S.opt.expect_recoverable = 0;
	infos[0] = vf_in_u32() & ~(snapraid_info)2;          /* no hash migration in progress on this stripe (rehash bit clear) */
	S.infoarr.element_size = sizeof(snapraid_info); S.infoarr.count = 1; seg[0] = infos; S.infoarr.block.bucket[0] = seg; S.infoarr.block.count = 1;
	for (l = 0; l < LEVEL; ++l) { PH[l].level = l; PH[l].split_mac = 1; wfail[l] = vf_in_u8() % 3;
#ifndef WFAULTS
		wfail[l] = 0;
#endif
	}
	for (j = 0; j < ND; ++j) {
		kind[j] = vf_in_u8() % 6;
#ifdef KINDS
		{ static const unsigned char kk[] = { KINDS }; kind[j] = kk[j]; }   /* stripe shape enumerated by the driver */
#endif
		tok_new[j] = vf_in_u64(); tok_old[j] = vf_in_u64(); tok_disk[j] = vf_in_u64();
		attr_changed[j] = vf_in_u8() % 5; open_err[j] = vf_in_u8() % 4; read_err[j] = vf_in_u8() % 3;
#ifndef FAULTS
		attr_changed[j] = 0; open_err[j] = 0; read_err[j] = 0;     /* fault-free run (faults are explored by the FAULTS jobs) */
#endif
		FL[j].size = BS; FL[j].blockmax = 1; FL[j].mtime_sec = 100; FL[j].mtime_nsec = 5; FL[j].inode = 7; FL[j].sub = "f"; FL[j].flag = 0;
		FL[j].blockvec = (struct snapraid_block*)BV[j];
		DK[j].name[0] = 'd'; DK[j].name[1] = 0; DK[j].dir[0] = 0;
		order[j] = j;
		switch (kind[j]) {
		case K_HOLE: case K_EMPTY: oldv[j] = 0; newv[j] = 0; break;
		case K_BLK: block_state_set(blk(j), BLOCK_STATE_BLK); set_hash_tok(j, tok_new[j]); oldv[j] = tok_new[j]; newv[j] = tok_new[j]; break;
		case K_REP: block_state_set(blk(j), BLOCK_STATE_REP); set_hash_tok(j, tok_new[j]); oldv[j] = tok_old[j]; newv[j] = tok_new[j]; break;
		case K_CHG: {
			unsigned hk = vf_in_u8() % 3;
			block_state_set(blk(j), BLOCK_STATE_CHG); oldv[j] = tok_old[j]; newv[j] = tok_new[j];
			/* a CHG block with a usable past hash exists only when created by the scan of this very run over a block that was synced
			 * (or empty) in the loaded state: past hashes loaded from the content file are cleared (state.c "clear_past_hash",
			 * sync.c:812-817, scan.c:286-300).  Every parity level then encodes that previous content at this position, whether or not an
			 * earlier interrupted sync rewrote the stripe.  Only a CHG with an invalid hash may already be encoded with newer data. */
			if (hk == 0) { set_hash_tok(j, tok_old[j]); newv[j] = oldv[j]; } else if (hk == 1) { oldv[j] = 0; newv[j] = 0; hash_zero_set(blk(j)->hash); } else hash_invalid_set(blk(j)->hash);
			break; }
		default: {
			unsigned hk = vf_in_u8() & 1;
			block_state_set(blk(j), BLOCK_STATE_DELETED); oldv[j] = tok_old[j]; newv[j] = 0;
			if (hk == 0) { set_hash_tok(j, tok_old[j]); newv[j] = oldv[j]; } else hash_invalid_set(blk(j)->hash);    /* same: a valid past hash means deleted in this run, parity still has the data */
			break; }
		}
	}
#if ND == 2 && defined(REORDER)
	order[0] = 1; order[1] = 0;      /* C13: readers may finish in any order - enumerated by the driver (a symbolic order makes every disk index symbolic) */
#endif
	for (l = 0; l < LEVEL; ++l) { int isnew = vf_in_u8() & 1; for (j = 0; j < ND; ++j) par_vec[l][j] = isnew ? newv[j] : oldv[j]; parity_written[l] = 0; }
	io_start = st_start; io_stop = st_stop; io_read_next = st_read_next; io_data_read = st_data_read; io_write_preset = st_write_preset;
	io_parity_write = st_parity_write; io_write_next = st_write_next; io_refresh = st_refresh;
	stop_now = vf_in_u8() & 1;
}

/* INV: if every allocated block of the stripe is recorded as synced, every parity level encodes exactly the recorded contents */
static void check_inv(const char* when)
{
	unsigned j, l; int all_blk = 1, any = 0;
	(void)when;
	for (j = 0; j < ND; ++j) if (has_block(j)) { any = 1; if (block_state_get(blk(j)) != BLOCK_STATE_BLK) all_blk = 0; }
	if (any && all_blk) {
		for (l = 0; l < LEVEL; ++l) for (j = 0; j < ND; ++j) {
			if (has_block(j)) VF_ASSERT(d_par[l][j] == hash_lo(j), "C06: stripe recorded as synced => every parity level encodes the data the recorded hashes describe");
			else VF_ASSERT(par_vec[l][j] == 0, "C06: stripe recorded as synced => parity encodes zero for unused positions");
		}
	}
}

void c06_sync_step(void)
{
	int ret; unsigned j, l; snapraid_info info0; int was_blk[ND]; int had_err = 0, eio_read = 0, fatal = 0, wfailed = 0;
	pre_state();
	info0 = infos[0];
	for (j = 0; j < ND; ++j) was_blk[j] = kind[j] == K_BLK;
	/* pre-state satisfies INV too (it holds after every command) */
	{ int all_blk = 1, any = 0; for (j = 0; j < ND; ++j) if (has_block(j)) { any = 1; if (kind[j] != K_BLK) all_blk = 0; }
	  if (any && all_blk) for (l = 0; l < LEVEL; ++l) for (j = 0; j < ND; ++j) VF_ASSUME(par_vec[l][j] == newv[j]); }
	ret = __CPROVER_file_local_sync_c_state_sync_process(&S, PH, 0, 1);
	post_digests();
	for (l = 0; l < LEVEL; ++l) wfailed |= wfail_hit[l];
#ifdef ONLY_C08C
	VF_ASSUME(wfailed);               /* witness of the listed finding F-C08-c */
#endif
#ifdef ONLY_C08B
	VF_ASSUME(wfailed);               /* witness of the listed finding F-C08-b */
#endif
	/* --- C06: the invariant, for every outcome --- */
#ifdef EXCL_C08C
	if (!wfailed)                     /* listed finding F-C08-c (known_findings.txt): a stripe whose parity write failed is nevertheless recorded as synced */
#endif
	check_inv("after");
	for (l = 0; l < LEVEL; ++l) VF_ASSERT(parity_written[l] != 1, "C06/C07: parity written by this run is flushed before the function returns (the caller then saves the content file)");
#ifdef NEGCTL
	for (j = 0; j < ND; ++j) if (kind[j] == K_CHG) VF_ASSERT(block_state_get(blk(j)) == BLOCK_STATE_CHG, "NEGCTL (wrong on purpose): a pending block stays pending");
#endif
	/* --- C07/C12: no data file touched (asserted in the stubs), position map only shrinks by deleted blocks --- */
	for (j = 0; j < ND; ++j) if (dealloc[j]) VF_ASSERT(kind[j] == K_EMPTY, "deallocation only of deleted blocks");
	/* --- C08 / C19: errors never turn into protection --- */
	for (j = 0; j < ND; ++j) {
		if (kind[j] == K_CHG || kind[j] == K_REP || kind[j] == K_BLK) {
			int became_blk = block_state_get(blk(j)) == BLOCK_STATE_BLK && !was_blk[j];
			int read_failed = open_err[j] || attr_changed[j] || read_err[j];
			if (read_failed && !was_blk[j]) VF_ASSERT(!became_blk, "C08/C11: a block whose file could not be opened, changed attributes or failed to read is not recorded as synced");
			if (became_blk) VF_ASSERT(d_disk[j] == hash_lo(j), "C19/C06: a block becomes synced only with the hash of the data actually read");
			if (read_failed) had_err = 1;
			if (open_err[j] == 3 || (!open_err[j] && !attr_changed[j] && read_err[j] == 2)) fatal = 1;      /* EIO on open, non-EIO read error: the command stops */
			if (!open_err[j] && !attr_changed[j] && read_err[j] == 1) eio_read = 1;
		}
	}
	if (served) {
		if (had_err) VF_ASSERT(ret == -1, "C08: any read problem makes the command end with a failing status");
		if (eio_read && !fatal) VF_ASSERT(info_get_bad(infos[0]), "C08: a stripe with an input/output error on a data read is marked bad");
		if (had_err) VF_ASSERT(infos[0] == info0 || infos[0] == info_set_bad(info0), "C08: a stripe with a read problem is not recorded as freshly synced (its info word is left alone or only marked bad)");
		if (wfailed) VF_ASSERT(ret == -1, "C08: a failed parity write makes the command end with a failing status");
	}
	/* REP whose data does not hash to the recorded (inherited) hash: the stripe is not completed */
	for (j = 0; j < ND; ++j) if (kind[j] == K_REP && !open_err[j] && !attr_changed[j] && !read_err[j] && tok_disk[j] != tok_new[j] && served) {
		unsigned k2; int other_fatal = 0;
		for (k2 = 0; k2 < ND; ++k2) if (k2 != j && (read_err[k2] == 2 || open_err[k2] == 3)) other_fatal = 1;
		if (!other_fatal) {
			VF_ASSERT(block_state_get(blk(j)) == BLOCK_STATE_REP, "C19: a copy-detected block whose data does not match the inherited hash is not recorded as synced");
			VF_ASSERT(ret == -1, "C19: and the command fails");
		}
	}
	VF_WITNESS();
}
