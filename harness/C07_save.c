/*
 * C07 / C09 - atomic replacement of the content files: the real state_write(), state_write_content() (single-stream
 * multi-file variant), state_verify_content(), state_verify_thread(), state_rename_content() of cmdline/state.c with the real
 * cmdline/stream.c (sopen_multi_write, sopen_multi_file, swrite/sflush/ssync/sclose, sopen_read, sfill/sdeplete, scrc) over an
 * abstract file system.  The encoder state_write_thread is replaced by a stub that emits an arbitrary short body + its seal.
 *   - process death: every system call may be the last one (solver-chosen); at that point, and at every exit(), each content
 *     path must hold the complete old or the complete new bytes;
 *   - faults: a write may fail or be short; the data reaching one of the copies may be silently altered (then the
 *     verification pass must stop the command before any rename);
 *   - after a successful return all copies are byte-identical and equal to the new version.
 */
#include "portable.h"
#include "support.h"
#include "elem.h"
#include "state.h"
#include "stream.h"
#include "vf.h"
#include <stdarg.h>

#ifndef NC
#define NC 2            /* content copies (bound) */
#endif
#define FLEN 12         /* bytes per file (bound) */
#define NBODY 3         /* bytes the encoder stub emits before the 4-byte seal */

int exit_success = 0, exit_failure = 1, exit_sync_needed = 2;

/* ---------------- abstract file system ---------------- */
/* slot 2k = content copy k, slot 2k+1 = its ".tmp" */
struct afile { int exists; unsigned len; unsigned char data[FLEN]; };
static struct afile FS[2 * NC];
static struct { int used; int slot; unsigned pos; int wr; } FD[8];
static unsigned char oldv[NC][FLEN]; static unsigned oldlen[NC]; static int oldexists[NC];
static unsigned char newv[FLEN]; static unsigned newlen; static int new_known;
static int crash_budget, corrupt_copy, write_fault_at, nwrites, dead, fault_happened;

static int slot_of(const char* path)
{
	/* names: "c0", "c1", ... and "c0.tmp" ... */
	int k;
	VF_ASSERT(path[0] == 'c' && path[1] >= '0' && path[1] < '0' + NC, "harness: only content paths are touched");
	k = path[1] - '0';
	if (path[2] == 0) return 2 * k;
	VF_ASSERT(path[2] == '.' && path[3] == 't' && path[4] == 'm' && path[5] == 'p' && path[6] == 0, "C09: the only other name used is <content>.tmp");
	return 2 * k + 1;
}
static int same(const struct afile* f, const unsigned char* v, unsigned len) { unsigned i; int e = f->exists && f->len == len; for (i = 0; i < FLEN; ++i) if (i < len && f->data[i] != v[i]) e = 0; return e; }
/* the atomicity invariant */
static void check_copies(const char* when)
{
	unsigned k; (void)when;
	for (k = 0; k < NC; ++k) {
		int is_old = oldexists[k] ? same(&FS[2 * k], oldv[k], oldlen[k]) : !FS[2 * k].exists;
		int is_new = new_known && same(&FS[2 * k], newv, newlen);
		VF_ASSERT(is_old || is_new, "C09/C07: each configured content copy is at all times either the complete old or the complete new version");
	}
}
static void syscall_point(void)
{
	/* the process may die right before any system call */
	if (crash_budget && (vf_in_u8() & 1)) { dead = 1; check_copies("killed"); VF_WITNESS(); VF_STOP(); }
}
#ifndef VF_NATIVE
void exit(int c) { VF_ASSERT(c != 0, "stopping early is a failure"); check_copies("exit"); VF_WITNESS(); VF_STOP(); }
#endif
void free(void* p) { (void)p; }   /* streams and contexts live in static storage here */
void os_abort(void) { VF_ASSERT(0, "os_abort reached"); VF_STOP(); }

int open(const char* path, int flags, ...)
{
	int s, fd;
	syscall_point();
	s = slot_of(path);
	if (flags & O_CREAT) {
		VF_ASSERT((s & 1) == 1, "C09/C12: only <content>.tmp is ever created or opened for writing");
		VF_ASSERT(flags & O_EXCL, "C09: the temporary file is created with O_EXCL");
		if (FS[s].exists) { errno = EEXIST; return -1; }
		FS[s].exists = 1; FS[s].len = 0;
	} else {
		VF_ASSERT((flags & (O_WRONLY | O_RDWR | O_TRUNC)) == 0, "C12: existing files are opened read-only");
		if (!FS[s].exists) { errno = ENOENT; return -1; }
	}
	for (fd = 3; fd < 8; ++fd) if (!FD[fd].used) break;
	VF_ASSERT(fd < 8, "harness: descriptors");
	FD[fd].used = 1; FD[fd].slot = s; FD[fd].pos = 0; FD[fd].wr = (flags & O_CREAT) != 0;
	return fd;
}
ssize_t write(int fd, const void* buf, size_t n)
{
	unsigned i; int s; const unsigned char* b = buf; size_t m = n;
	syscall_point();
	VF_ASSERT(fd >= 3 && fd < 8 && FD[fd].used && FD[fd].wr, "write on a descriptor opened for writing");
	s = FD[fd].slot;
	++nwrites;
	if (write_fault_at == nwrites) { unsigned kind = vf_in_u8() & 1; fault_happened = 1; if (kind) { errno = ENOSPC; return -1; } m = n - 1; }   /* error or short write */
	VF_ASSERT(FS[s].len + m <= FLEN, "harness: file bound");
	for (i = 0; i < FLEN; ++i) if (i < m) {
		unsigned char c = b[i];
		if (corrupt_copy == s / 2 && FS[s].len + i == 1) { c ^= 0x10; fault_happened = 1; }      /* a silent fault on the way to one copy */
		FS[s].data[FS[s].len + i] = c;
	}
	FS[s].len += m;
	return (ssize_t)m;
}
ssize_t read(int fd, void* buf, size_t n)
{
	unsigned i, m; int s; unsigned char* b = buf;
	syscall_point();
	VF_ASSERT(fd >= 3 && fd < 8 && FD[fd].used && !FD[fd].wr, "read on a descriptor opened for reading");
	s = FD[fd].slot;
	m = FS[s].len - FD[fd].pos; if (m > n) m = n;
	for (i = 0; i < FLEN; ++i) if (i < m) b[i] = FS[s].data[FD[fd].pos + i];
	FD[fd].pos += m;
	return m;
}
int fsync(int fd) { syscall_point(); VF_ASSERT(fd >= 3 && fd < 8 && FD[fd].used, "fsync on an open descriptor"); return 0; }
int close(int fd) { syscall_point(); VF_ASSERT(fd >= 3 && fd < 8 && FD[fd].used, "close on an open descriptor"); FD[fd].used = 0; return 0; }
int posix_fadvise(int fd, off_t a, off_t b, int c) { (void)fd; (void)a; (void)b; (void)c; return 0; }
int remove(const char* path) { int s; syscall_point(); s = slot_of(path); VF_ASSERT((s & 1) == 1, "C09: only a stale <content>.tmp is ever removed"); if (!FS[s].exists) { errno = ENOENT; return -1; } FS[s].exists = 0; return 0; }
int rename(const char* a, const char* b)
{
	int sa, sb;
	syscall_point();
	sa = slot_of(a); sb = slot_of(b);
	VF_ASSERT(sa == sb + 1 && (sb & 1) == 0, "C09: the only rename is <content>.tmp over <content>");
	VF_ASSERT(FS[sa].exists, "rename of an existing file");
	FS[sb] = FS[sa]; FS[sa].exists = 0;      /* atomic (kernel semantics trusted) */
	return 0;
}
/* ---------------- environment ---------------- */
static unsigned char sbuf[4][8]; static int nsbuf; static STREAM streams[4]; static int nstream; static struct stream_handle handles[4][NC];
void* malloc_nofail(size_t size)
{
	/* typed static storage, by size (pointer-holding objects must not live in raw bytes) */
	if (size == sizeof(STREAM)) { VF_ASSERT(nstream < 4, "harness: streams"); return &streams[nstream++]; }
	if (size == sizeof(struct stream_handle) || size == NC * sizeof(struct stream_handle)) { static int nh; VF_ASSERT(nh < 4, "harness: handles"); return handles[nh++]; }
	{ void* p = malloc(size); VF_ASSUME(p != 0); return p; }
}
void* malloc_nofail_test(size_t size) { VF_ASSERT(size <= 8 && nsbuf < 4, "harness: stream buffers"); return sbuf[nsbuf++]; }
uint32_t crc_roll(uint32_t crc, const unsigned char* p, unsigned n) { unsigned i; for (i = 0; i < 16; ++i) if (i < n) crc = crc * 33u + p[i] + 1u; return crc; }
uint32_t (*crc32c)(uint32_t crc, const unsigned char* ptr, unsigned size) = crc_roll;   /* any incremental checksum does: the real CRC is decided in C09/crc */
int crc_x86;
void pathcpy(char* d, size_t n, const char* s) { size_t i; for (i = 0; i < 8; ++i) { VF_ASSERT(i < n, "path fits"); d[i] = s[i]; if (!s[i]) break; } }
void pathprint(char* d, size_t n, const char* fmt, ...)
{
	/* only "%s.tmp" is used by the code under test */
	va_list ap; const char* s; size_t i = 0;
	VF_ASSERT(fmt[0] == '%' && fmt[1] == 's' && fmt[2] == '.' && fmt[3] == 't' && fmt[4] == 'm' && fmt[5] == 'p' && fmt[6] == 0, "harness: pathprint format");
	va_start(ap, fmt); s = va_arg(ap, const char*); va_end(ap);
	for (; s[i]; ++i) { VF_ASSERT(i + 5 < n, "path fits"); d[i] = s[i]; }
	d[i] = '.'; d[i + 1] = 't'; d[i + 2] = 'm'; d[i + 3] = 'p'; d[i + 4] = 0;
}
char* strerror(int e) { (void)e; return ""; }
uint64_t tick_ms(void) { return 0; }
time_t time(time_t* t) { if (t) *t = 9; return 9; }
block_off_t parity_allocated_size(struct snapraid_state* s) { (void)s; return 0; }
void __CPROVER_file_local_state_c_state_fscheck(struct snapraid_state* s, const char* w) { (void)s; (void)w; }
/* threads of the verification pass: run to completion at creation */
static void* th_ret[4]; static int nth;
void thread_create(thread_id_t* t, void* (*func)(void*), void* arg) { VF_ASSERT(nth < 4, "harness: threads"); *t = (thread_id_t)nth; th_ret[nth++] = func(arg); }
void thread_join(thread_id_t t, void** retval) { *retval = th_ret[(int)t]; }

/* the encoder: emits an arbitrary short body followed by its seal through the real stream, reports the seal */
struct state_write_thread_context { struct snapraid_state* state; block_off_t blockmax; time_t info_oldest; time_t info_now; int info_has_rehash; STREAM* f; uint32_t crc; unsigned count_file; unsigned count_hardlink; unsigned count_symlink; unsigned count_dir; };
void* __CPROVER_file_local_state_c_state_write_thread(void* arg)
{
	struct state_write_thread_context* c = arg; unsigned char body[NBODY]; unsigned i; uint32_t crc;
	for (i = 0; i < NBODY; ++i) { body[i] = vf_in_u8(); if (sputc(body[i], c->f) != 0) return c; }
	crc = crc_roll(0, body, NBODY);
	if (sputble32(crc, c->f) != 0) return c;
	/* ghost: the complete new version */
	for (i = 0; i < NBODY; ++i) newv[i] = body[i];
	newv[NBODY] = crc & 0xff; newv[NBODY + 1] = (crc >> 8) & 0xff; newv[NBODY + 2] = (crc >> 16) & 0xff; newv[NBODY + 3] = (crc >> 24) & 0xff;
	newlen = NBODY + 4; new_known = 1;
	c->crc = crc; c->count_file = 0; c->count_hardlink = 0; c->count_symlink = 0; c->count_dir = 0;
	return 0;
}

static struct snapraid_state S; static struct snapraid_content CT[NC];

static void setup(void)
{
	unsigned k, i;
	STREAM_SIZE = 4;       /* small: flushes and refills happen inside the sequence */
	tommy_list_init(&S.contentlist);
	for (k = 0; k < NC; ++k) {
		CT[k].content[0] = 'c'; CT[k].content[1] = (char)('0' + k); CT[k].content[2] = 0;
		tommy_list_insert_tail(&S.contentlist, &CT[k].node, &CT[k]);
		oldexists[k] = vf_in_u8() & 1; oldlen[k] = vf_in_u8() % (FLEN + 1);
		FS[2 * k].exists = oldexists[k]; FS[2 * k].len = oldlen[k];
		for (i = 0; i < FLEN; ++i) { oldv[k][i] = vf_in_u8(); FS[2 * k].data[i] = oldv[k][i]; }
		/* a stale temporary file may have been left by an earlier crash */
		FS[2 * k + 1].exists = vf_in_u8() & 1; FS[2 * k + 1].len = vf_in_u8() % (FLEN + 1);
	}
}

/* process death at any system call */
void c07_crash(void)
{
	setup();
	crash_budget = 1; corrupt_copy = -1; write_fault_at = 0;
	state_write(&S);
	{ unsigned k; for (k = 0; k < NC; ++k) VF_ASSERT(same(&FS[2 * k], newv, newlen) && !FS[2 * k + 1].exists, "C09: after a successful save every copy is the new version and no temporary file is left"); }
	VF_ASSERT(S.need_write == 0, "saved");
	VF_WITNESS();
}
/* write errors, short writes, silent corruption of one copy on its way to the disk */
void c09_faults(void)
{
	setup();
	crash_budget = 0;
	corrupt_copy = (int)(vf_in_u8() % (NC + 1)) - 1;      /* -1: none */
	write_fault_at = vf_in_u8() % 6;                      /* 0: none */
	state_write(&S);
	/* returning normally means every check passed: then nothing can have been altered on the way */
	VF_ASSERT(!fault_happened, "C09: a copy that does not verify, or a failed / short write, stops the command (nothing is renamed)");
	{ unsigned k; for (k = 0; k < NC; ++k) VF_ASSERT(same(&FS[2 * k], newv, newlen), "C09: after a successful command all copies are byte-identical"); }
	VF_WITNESS();
}
#ifdef NEGCTL
void c07_negctl(void)
{
	setup(); crash_budget = 1; corrupt_copy = -1; write_fault_at = 0;
	state_write(&S);
	VF_ASSERT(!new_known, "WRONG ORACLE: nothing is ever written");
}
#endif
