/*
 * C08 - writer error accounting of the single-thread I/O layer: the real io_write_preset_mono, io_parity_write_mono,
 * io_write_next_mono of cmdline/io.c with a parity writer whose outcome per level is chosen by the solver.
 * Contract (the one the threaded layer is shown to meet in C13 and the sync loop relies on): after the stripe's writes,
 * io_write_next reports for each error kind exactly the number of writers that ended in that state.
 */
#include "portable.h"
#include "support.h"
#include "elem.h"
#include "state.h"
#include "io.h"
#include "vf.h"

void __CPROVER_file_local_io_c_io_write_preset_mono(struct snapraid_io* io, block_off_t blockcur, int skip);
void __CPROVER_file_local_io_c_io_parity_write_mono(struct snapraid_io* io, unsigned* pos, unsigned* waiting_map, unsigned* waiting_mac);
void __CPROVER_file_local_io_c_io_write_next_mono(struct snapraid_io* io, block_off_t blockcur, int skip, int* writer_error);

#define LMAX 6
static struct snapraid_io IO; static struct snapraid_worker WW[LMAX]; static void* row[LMAX + 2]; static unsigned char b[8];
static int outcome[LMAX]; static unsigned calls;
static void writer(struct snapraid_worker* w, struct snapraid_task* t) { unsigned l = (unsigned)(w - WW); ++calls; t->state = outcome[l]; }

void c08_mono_errors(void)
{
	int we[IO_WRITER_ERROR_MAX]; unsigned l, k, L, pos, wm[LMAX], wmac; int skip = 0; int expect[IO_WRITER_ERROR_MAX] = { 0, 0, 0, 0 };
#ifdef NLEV
	L = NLEV;    /* number of parity levels: enumerated by the driver */
#else
	L = vf_in_u8(); VF_ASSUME(L >= 1 && L <= LMAX);
#endif
	IO.io_max = 1; IO.writer_max = L; IO.writer_map = WW; IO.reader_max = 0; IO.buffer_map[0] = row;
	for (l = 0; l < LMAX + 2; ++l) row[l] = b;
	for (l = 0; l < LMAX; ++l) { WW[l].io = &IO; WW[l].func = writer; WW[l].buffer_skew = 0; outcome[l] = (int)(vf_in_u8() % 5) - 4; if (outcome[l] == 0) outcome[l] = TASK_STATE_DONE; }
	for (k = 0; k < IO_WRITER_ERROR_MAX; ++k) IO.writer_error[k] = vf_in_u8();     /* whatever an earlier stripe left */
	__CPROVER_file_local_io_c_io_write_preset_mono(&IO, 5, skip);
	for (l = 0; l < LMAX; ++l) if (l < L) {
		__CPROVER_file_local_io_c_io_parity_write_mono(&IO, &pos, wm, &wmac);
		VF_ASSERT(pos == l, "levels are written in order, each once");
	}
	__CPROVER_file_local_io_c_io_write_next_mono(&IO, 5, skip, we);
	VF_ASSERT(calls == L, "every level's writer ran");
	for (l = 0; l < LMAX; ++l) if (l < L && outcome[l] < 0) ++expect[outcome[l] - IO_WRITER_ERROR_BASE];
	for (k = 0; k < IO_WRITER_ERROR_MAX; ++k) VF_ASSERT(we[k] == expect[k], "C08: every failed parity write is reported to the sync loop, once, for its stripe");
	VF_WITNESS();
}
#ifdef NEGCTL
void c08_negctl(void)
{
	int we[IO_WRITER_ERROR_MAX]; unsigned pos, wm[LMAX], wmac, l;
	IO.io_max = 1; IO.writer_max = 1; IO.writer_map = WW; IO.buffer_map[0] = row; for (l = 0; l < LMAX + 2; ++l) row[l] = b;
	WW[0].io = &IO; WW[0].func = writer; outcome[0] = TASK_STATE_DONE;
	__CPROVER_file_local_io_c_io_write_preset_mono(&IO, 5, 0);
	__CPROVER_file_local_io_c_io_parity_write_mono(&IO, &pos, wm, &wmac);
	__CPROVER_file_local_io_c_io_write_next_mono(&IO, 5, 0, we);
	VF_ASSERT(calls == 0, "WRONG ORACLE: the writer is never run");
}
#endif
