/* C09/C16 - CRC-32C seal of the content file: real crc32c_gen / crc32c_gen_plain (table driven) and the translated
 * crc32c_x86 (SSE4.2 path) of cmdline/util.c + util.h against the bit-serial definition; error detection; incrementality */
#include "portable.h"
#include "support.h"
#include "util.h"
#include "vf.h"

#ifndef L
#define L 12
#endif

/* definition: reflected CRC-32C, polynomial 0x82F63B78, initial value and final xor 0xffffffff */
static uint32_t ref_crc_plain(uint32_t crc, const unsigned char* p, unsigned n)
{
	unsigned i, k;
	for (i = 0; i < n; ++i) {
		crc ^= p[i];
		for (k = 0; k < 8; ++k) crc = (crc >> 1) ^ ((crc & 1) ? 0x82F63B78u : 0);
	}
	return crc;
}
static uint32_t ref_crc(uint32_t crc, const unsigned char* p, unsigned n) { return ref_crc_plain(crc ^ 0xffffffffu, p, n) ^ 0xffffffffu; }

static unsigned char buf[2 * L + 8];   /* second half stays zero */
static unsigned fill(void)
{
	unsigned i; unsigned n = vf_in_u8();
	VF_ASSUME(n <= L);
	for (i = 0; i < L; ++i) buf[i] = vf_in_u8();
	return n;
}
void crc_tables(void)
{
	uint8_t i = vf_in_u8(); unsigned k; uint32_t c = i;
	for (k = 0; k < 8; ++k) c = (c >> 1) ^ ((c & 1) ? 0x82F63B78u : 0);
	VF_ASSERT(CRC32C_0[i] == c, "CRC32C_0 is the byte table of the polynomial");
	VF_ASSERT(CRC32C_1[i] == ((CRC32C_0[i] >> 8) ^ CRC32C_0[CRC32C_0[i] & 0xff]), "CRC32C_1 = one more zero byte");
	VF_ASSERT(CRC32C_2[i] == ((CRC32C_1[i] >> 8) ^ CRC32C_0[CRC32C_1[i] & 0xff]), "CRC32C_2");
	VF_ASSERT(CRC32C_3[i] == ((CRC32C_2[i] >> 8) ^ CRC32C_0[CRC32C_2[i] & 0xff]), "CRC32C_3");
	VF_WITNESS();
}
/* --- the table-driven implementation, decided by induction over its two loops (the loop state is the CRC alone) ---
 * A direct equivalence query over several bytes is a XOR-heavy miter no CDCL solver here finishes (measured: > 15 min
 * for 3 bytes with kissat, cadical and z3), so the obligations are the inductive steps from an ARBITRARY CRC state. */

/* step of the byte-wise tail loop, and the IV / final-xor wrapper */
void crc_byte(void)
{
	uint32_t iv = vf_in_u32(); unsigned n = vf_in_u8();
	VF_ASSUME(n <= 1);
	buf[0] = vf_in_u8();
	VF_ASSERT(crc32c_gen_plain(iv, buf, n) == ref_crc_plain(iv, buf, n), "one byte-wise table step equals eight bit-serial steps, from any CRC state");
	VF_ASSERT(crc32c_gen(iv, buf, n) == ref_crc(iv, buf, n), "IV / final xor handling");
	crc_x86 = 0;
	VF_ASSERT(crc32c_plain_char(iv, buf[0]) == ref_crc_plain(iv, buf, 1), "crc32c_plain_char (table path)");
	VF_WITNESS();
}
/* step of the 4-byte slicing loop. The oracle is the bit-serial definition decomposed by superposition:
 * CRC is GF(2)-linear, so the CRC of the word x = crc ^ w is the XOR over its bytes of "that byte followed by k zero bytes" */
static uint32_t ref_byte_then_zeros(uint8_t b, unsigned k)
{
	unsigned char t[4] = { b, 0, 0, 0 };
	return ref_crc_plain(0, t, 1 + k);
}
void crc_step4(void)
{
	uint32_t iv = vf_in_u32(); unsigned i; uint32_t x, e;
	for (i = 0; i < 4; ++i) buf[i] = vf_in_u8();
	x = iv ^ (buf[0] | (uint32_t)buf[1] << 8 | (uint32_t)buf[2] << 16 | (uint32_t)buf[3] << 24);
	e = ref_byte_then_zeros((uint8_t)x, 3) ^ ref_byte_then_zeros((uint8_t)(x >> 8), 2) ^ ref_byte_then_zeros((uint8_t)(x >> 16), 1) ^ ref_byte_then_zeros((uint8_t)(x >> 24), 0);
	VF_ASSERT(crc32c_gen_plain(iv, buf, 4) == e, "slicing-by-4 step equals the bit-serial CRC of the four bytes (superposed)");
	VF_WITNESS();
}
/* loop bookkeeping (pointer advance, byte order, slice/tail split, incremental use) for every length <= L, on the
 * sub-space where every message byte is 0 or 1 (initial CRC 0) */
void crc_bookkeeping(void)
{
	unsigned i, n = vf_in_u8(), k = vf_in_u8();
	VF_ASSUME(n <= 7 && k <= n);
	for (i = 0; i < 8; ++i) buf[i] = vf_in_u8() & 1;
	VF_ASSERT(crc32c_gen(0, buf, n) == ref_crc(0, buf, n), "crc32c_gen over n <= 7 bytes (one slice + tail), 0/1 bytes");
	VF_ASSERT(crc32c_gen(crc32c_gen(0, buf, k), buf + k, n - k) == ref_crc(0, buf, n), "crc(crc(iv,a),b) == crc(iv,a||b)");
	VF_WITNESS();
}
void crc_x86_def(void)
{
	unsigned n = fill(); uint32_t iv = vf_in_u32();
	crc_x86 = 1;
	VF_ASSERT(crc32c_x86(iv, buf, n) == ref_crc(iv, buf, n), "crc32c_x86 (SSE4.2 path, translated) equals the definition");
	VF_ASSERT(crc32c_plain(iv, buf, n) == ref_crc_plain(iv, buf, n), "crc32c_plain dispatches to an equivalent implementation");
	VF_ASSERT(crc32c_plain_char(iv, buf[0]) == ref_crc_plain(iv, buf, 1), "crc32c_plain_char (instruction path)");
	VF_WITNESS();
}
/* error detection, on the linear map: crc(x) ^ crc(x ^ d) == crc_plain(0, d) for equal lengths, so a change is missed iff the
 * difference pattern d maps to zero.  No pattern confined to one byte (any position, any length <= L) does. */
void crc_detect(void)
{
	unsigned i, n = vf_in_u8(), pos = vf_in_u8(); uint8_t delta = vf_in_u8();
	VF_ASSUME(n >= 1 && n <= L && pos < n && delta != 0);
	for (i = 0; i < L; ++i) buf[i] = (i == pos) ? delta : 0;
	VF_ASSERT(ref_crc_plain(0, buf, n) != 0, "no single-byte (hence single-bit) difference is mapped to zero");
	VF_ASSERT(crc32c_gen(0, buf, n) != crc32c_gen(0, buf + L, n), "the implementation separates the damaged from the all-zero message");
	VF_WITNESS();
}
#ifdef NEGCTL
void crc_negctl(void)
{
	unsigned n = fill(); uint32_t iv = vf_in_u32();
	VF_ASSERT(crc32c_gen(iv, buf, n) == (ref_crc(iv, buf, n) ^ (n == 7 && buf[6] == 0x42)), "WRONG ORACLE");
}
#endif
