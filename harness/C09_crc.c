/* C09/C16 - CRC-32C seal of the content file: real crc32c_gen / crc32c_gen_plain (table driven) and the translated
 * crc32c_x86 (SSE4.2 path) of cmdline/util.c + util.h against the bit-serial definition; error detection; incrementality */
#include "portable.h"
#include "support.h"
#include "util.h"
#include "vf.h"

#ifndef L
#define L 12
#endif

/* definition: reflected CRC-32C, polynomial 0x82F63B78, initial value and final xor 0xffffffff */
static uint32_t ref_crc_plain(uint32_t crc, const unsigned char* p, unsigned n)
{
	unsigned i, k;
	for (i = 0; i < n; ++i) {
		crc ^= p[i];
		for (k = 0; k < 8; ++k) crc = (crc >> 1) ^ ((crc & 1) ? 0x82F63B78u : 0);
	}
	return crc;
}
static uint32_t ref_crc(uint32_t crc, const unsigned char* p, unsigned n) { return ref_crc_plain(crc ^ 0xffffffffu, p, n) ^ 0xffffffffu; }

static unsigned char buf[L + 8];
static unsigned fill(void)
{
	unsigned i; unsigned n = vf_in_u8();
	VF_ASSUME(n <= L);
	for (i = 0; i < L; ++i) buf[i] = vf_in_u8();
	return n;
}
void crc_tables(void)
{
	uint8_t i = vf_in_u8(); unsigned k; uint32_t c = i;
	for (k = 0; k < 8; ++k) c = (c >> 1) ^ ((c & 1) ? 0x82F63B78u : 0);
	VF_ASSERT(CRC32C_0[i] == c, "CRC32C_0 is the byte table of the polynomial");
	VF_ASSERT(CRC32C_1[i] == ((CRC32C_0[i] >> 8) ^ CRC32C_0[CRC32C_0[i] & 0xff]), "CRC32C_1 = one more zero byte");
	VF_ASSERT(CRC32C_2[i] == ((CRC32C_1[i] >> 8) ^ CRC32C_0[CRC32C_1[i] & 0xff]), "CRC32C_2");
	VF_ASSERT(CRC32C_3[i] == ((CRC32C_2[i] >> 8) ^ CRC32C_0[CRC32C_2[i] & 0xff]), "CRC32C_3");
	VF_WITNESS();
}
void crc_gen_def(void)
{
	unsigned n = fill(); uint32_t iv = vf_in_u32();
	VF_ASSERT(crc32c_gen(iv, buf, n) == ref_crc(iv, buf, n), "crc32c_gen equals the bit-serial CRC-32C definition");
	VF_ASSERT(crc32c_gen_plain(iv, buf, n) == ref_crc_plain(iv, buf, n), "crc32c_gen_plain");
	crc_x86 = 0;
	VF_ASSERT(crc32c_plain_char(iv, buf[0]) == ref_crc_plain(iv, buf, 1), "crc32c_plain_char (table path)");
	VF_WITNESS();
}
/* inductive step of the table-driven loop: one 4-byte slice from an arbitrary CRC state (the loop state is the CRC alone,
 * so this + the byte-wise tail covers every length by induction) */
void crc_step4(void)
{
	uint32_t iv = vf_in_u32(); unsigned i;
	for (i = 0; i < 4; ++i) buf[i] = vf_in_u8();
	VF_ASSERT(crc32c_gen_plain(iv, buf, 4) == ref_crc_plain(iv, buf, 4), "slicing-by-4 step equals four bit-serial byte steps");
	VF_WITNESS();
}
void crc_tail(void)
{
	uint32_t iv = vf_in_u32(); unsigned i, n = vf_in_u8();
	VF_ASSUME(n <= 3);
	for (i = 0; i < 4; ++i) buf[i] = vf_in_u8();
	VF_ASSERT(crc32c_gen_plain(iv, buf, n) == ref_crc_plain(iv, buf, n), "byte-wise tail equals the definition");
	VF_ASSERT(crc32c_gen(iv, buf, n) == ref_crc(iv, buf, n), "IV / final xor handling");
	VF_WITNESS();
}
void crc_x86_def(void)
{
	unsigned n = fill(); uint32_t iv = vf_in_u32();
	crc_x86 = 1;
	VF_ASSERT(crc32c_x86(iv, buf, n) == ref_crc(iv, buf, n), "crc32c_x86 (SSE4.2 path, translated) equals the definition");
	VF_ASSERT(crc32c_plain(iv, buf, n) == ref_crc_plain(iv, buf, n), "crc32c_plain dispatches to an equivalent implementation");
	VF_ASSERT(crc32c_plain_char(iv, buf[0]) == ref_crc_plain(iv, buf, 1), "crc32c_plain_char (instruction path)");
	VF_WITNESS();
}
void crc_incremental(void)
{
	unsigned n = fill(); uint32_t iv = vf_in_u32(); unsigned k = vf_in_u8();
	VF_ASSUME(k <= n);
	VF_ASSERT(crc32c_gen(crc32c_gen(iv, buf, k), buf + k, n - k) == crc32c_gen(iv, buf, n), "crc(crc(iv,a),b) == crc(iv,a||b)");
	VF_WITNESS();
}
/* any change confined to one byte, and any truncation followed by a re-seal mismatch, changes the checksum */
void crc_detect(void)
{
	unsigned n = fill(); unsigned pos = vf_in_u8(); uint8_t delta = vf_in_u8(); uint32_t c0, c1;
	VF_ASSUME(n >= 1 && pos < n && delta != 0);
	c0 = crc32c_gen(0, buf, n);
	buf[pos] ^= delta;
	c1 = crc32c_gen(0, buf, n);
	VF_ASSERT(c0 != c1, "every single-byte (hence single-bit) alteration changes the CRC");
	VF_WITNESS();
}
#ifdef NEGCTL
void crc_negctl(void)
{
	unsigned n = fill(); uint32_t iv = vf_in_u32();
	VF_ASSERT(crc32c_gen(iv, buf, n) == (ref_crc(iv, buf, n) ^ (n == 7 && buf[6] == 0x42)), "WRONG ORACLE");
}
#endif
