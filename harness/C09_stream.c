/*
 * C09/C10 - stream decoders on untrusted bytes and codec round trips: real cmdline/stream.c (+ stream.h inlines)
 * over a memory file.  read() delivers an arbitrary byte string of symbolic length in arbitrary chunking;
 * write() appends to a memory file.  crc32c is stubbed here (its definition is checked in C09_crc.c).
 */
#include "portable.h"
#include "support.h"
#include "util.h"
#include "stream.h"
#include "vf.h"

#ifndef NB
#define NB 12        /* bytes in the untrusted file (bound) */
#endif
#ifndef SSZ
#define SSZ 4        /* STREAM_SIZE used: small so that refills happen inside every decoder */
#endif

static unsigned char file_[NB + 1];
static unsigned flen, fpos;
static unsigned char wfile[32];
static unsigned wlen;

ssize_t read(int fd, void* buf, size_t count)
{
	unsigned n, i;
	(void)fd;
	if (fpos >= flen) return 0;
	n = vf_in_u8();                       /* arbitrary chunking: the kernel may return fewer bytes than asked */
	VF_ASSUME(n >= 1 && n <= count && n <= flen - fpos);
	for (i = 0; i < n; ++i) ((unsigned char*)buf)[i] = file_[fpos + i];
	fpos += n;
	return n;
}
ssize_t write(int fd, const void* buf, size_t count)
{
	unsigned i;
	(void)fd;
	VF_ASSERT(wlen + count <= sizeof(wfile), "harness: memory file large enough");
	for (i = 0; i < count; ++i) wfile[wlen + i] = ((const unsigned char*)buf)[i];
	wlen += count;
	return count;
}
static uint32_t crc_stub(uint32_t crc, const unsigned char* ptr, unsigned size) { (void)ptr; (void)size; return crc + 1; }
uint32_t (*crc32c)(uint32_t crc, const unsigned char* ptr, unsigned size) = crc_stub;
int crc_x86;

static unsigned char rbuf[SSZ], wbuf[SSZ];
static struct stream_handle rh, wh;
static STREAM R, W;

static void open_r(void)
{
	STREAM_SIZE = SSZ;
	R.buffer = rbuf; R.pos = rbuf; R.end = rbuf; R.state = STREAM_STATE_READ; R.state_index = 0;
	R.handle_size = 1; R.handle = &rh; rh.f = 3; R.offset = 0; R.offset_uncached = 0; R.crc = 0; R.crc_uncached = 0; R.crc_stream = CRC_IV;
}
static void open_w(void)
{
	STREAM_SIZE = SSZ;
	W.buffer = wbuf; W.pos = wbuf; W.end = wbuf + SSZ; W.state = STREAM_STATE_WRITE; W.state_index = 0;
	W.handle_size = 1; W.handle = &wh; wh.f = 4; W.offset = 0; W.offset_uncached = 0; W.crc = 0; W.crc_uncached = 0; W.crc_stream = CRC_IV;
}
static void any_file(void)
{
	unsigned i;
	flen = vf_in_u8();
	VF_ASSUME(flen <= NB);
	for (i = 0; i < NB; ++i) file_[i] = vf_in_u8();
	fpos = 0;
}
/* bytes consumed so far by the decoder */
static unsigned consumed(void) { return (unsigned)(fpos - (R.end - R.pos)); }

/* ---- varints: memory safety + value semantics on arbitrary bytes ---- */
void c09_getb32(void)
{
	uint32_t v = 0xdeadbeef; int r; unsigned k, n;
	any_file(); open_r();
	r = sgetb32(&R, &v);
	n = consumed();
	if (r == 0) {
		uint64_t e = 0;
		VF_ASSERT(n >= 1 && n <= 5, "a 32-bit varint has 1..5 bytes");
		VF_ASSERT(file_[n - 1] & 0x80, "the last byte carries the stop bit");
		for (k = 0; k < n; ++k) { if (k + 1 < n) VF_ASSERT(!(file_[k] & 0x80), "inner bytes have no stop bit"); e |= (uint64_t)(file_[k] & 0x7f) << (7 * k); }
		VF_ASSERT(v == (uint32_t)e, "decoded value is the little-endian base-128 value of the bytes consumed");
	} else {
		VF_ASSERT(r == -1, "error is -1");
	}
	VF_WITNESS();
}
void c09_getb64(void)
{
	uint64_t v = 0; int r; unsigned k, n;
	any_file(); open_r();
	r = sgetb64(&R, &v);
	n = consumed();
	if (r == 0) {
		uint64_t e = 0;
		VF_ASSERT(n >= 1 && n <= 10, "a 64-bit varint has 1..10 bytes");
		VF_ASSERT(file_[n - 1] & 0x80, "stop bit");
		for (k = 0; k < n; ++k) { if (7 * k < 64) e |= (uint64_t)(file_[k] & 0x7f) << (7 * k); }
		VF_ASSERT(v == e, "decoded value");
	}
	VF_WITNESS();
}
#ifndef STRSZ
#define STRSZ 6
#endif
/* ---- string: writes stay inside the destination, result is NUL terminated ---- */
void c09_getbs(void)
{
	char str[STRSZ + 2]; int r; unsigned k; uint8_t size;
	any_file(); open_r();
	size = vf_in_u8();
	VF_ASSUME(size >= 1 && size <= STRSZ);
	for (k = 0; k < STRSZ + 2; ++k) str[k] = 0x55;
	r = sgetbs(&R, str, size);        /* CBMC's bounds / pointer checks decide memory safety */
	for (k = size; k < STRSZ + 2; ++k) VF_ASSERT(str[k] == 0x55, "nothing is written beyond the size passed by the caller");
	if (r == 0) {
		unsigned n = 0; uint32_t len = 0;
		/* reference decode of the length */
		for (k = 0; k < 5; ++k) { len |= (uint32_t)(file_[k] & 0x7f) << (7 * k); ++n; if (file_[k] & 0x80) break; }
		VF_ASSERT(len < size, "accepted strings fit with their terminator");
		VF_ASSERT(str[len] == 0, "NUL terminated");
		for (k = 0; k < STRSZ; ++k) if (k < len) VF_ASSERT((unsigned char)str[k] == file_[n + k], "payload copied verbatim");
	}
	VF_WITNESS();
}
void c09_misc(void)
{
	char tok[STRSZ + 2]; uint32_t v = 0; int r; unsigned k; unsigned char buf4[4]; unsigned char last[4];
	unsigned which;
	any_file(); open_r();
#ifdef WHICH
	which = WHICH;     /* one decoder per job (enumerated by the driver) */
#else
	which = vf_in_u8();
#endif
	for (k = 0; k < STRSZ + 2; ++k) tok[k] = 0x55;
	switch (which) {
	case 0:
		r = sgettok(&R, tok, STRSZ);
		if (r >= 0) { VF_ASSERT(r < STRSZ && tok[r] == 0, "token NUL terminated inside the buffer"); }
		break;
	case 1:
		r = sgetline(&R, tok, STRSZ);
		break;
	case 2:
		r = sgetu32(&R, &v);
		if (r == 0) {
			/* reference: decimal digits consumed */
			uint64_t e = 0; unsigned n = consumed(); unsigned i;
			for (i = 0; i < n; ++i) { VF_ASSERT(file_[i] >= '0' && file_[i] <= '9', "only digits consumed"); e = e * 10 + (file_[i] - '0'); }
			VF_ASSERT(e == v, "decimal value without wrap-around");
		}
		break;
	case 3:
		r = sgetble32(&R, &v);
		if (r == 0) VF_ASSERT(v == (file_[0] | (uint32_t)file_[1] << 8 | (uint32_t)file_[2] << 16 | (uint32_t)file_[3] << 24), "little endian 32");
		else VF_ASSERT(flen < 4, "fails only on a short file");
		break;
	case 4:
		r = sread(&R, buf4, 4);
		VF_ASSERT((r == 0) == (flen >= 4), "sread succeeds iff enough bytes");
		if (r == 0) for (k = 0; k < 4; ++k) VF_ASSERT(buf4[k] == file_[k], "sread copies");
		break;
	default:
		r = sdeplete(&R, last);
		VF_ASSERT(r == 0 && fpos == flen, "sdeplete consumes the whole file");
		for (k = 0; k < 4; ++k) if (flen >= 4) VF_ASSERT(last[k] == file_[flen - 4 + k], "last four bytes");
		break;
	}
	for (k = STRSZ; k < STRSZ + 2; ++k) VF_ASSERT(tok[k] == 0x55, "token/line writes stay inside the size passed");
	VF_WITNESS();
}

/* ---- C10: codec round trips through a real write stream and a real read stream ---- */
static void reopen_written(void)
{
	unsigned i;
	VF_ASSERT(sflush(&W) == 0, "flush");
	VF_ASSERT(wlen <= NB, "harness: file bound");
	for (i = 0; i < NB; ++i) file_[i] = i < wlen ? wfile[i] : 0;
	flen = wlen; fpos = 0;
	open_r();
}
void c10_b32(void)
{
	uint32_t v = vf_in_u32(), g = 0;
	open_w(); wlen = 0;
	VF_ASSERT(sputb32(v, &W) == 0 && sputc('x', &W) == 0, "put");
	reopen_written();
	VF_ASSERT(wlen <= 6, "a 32-bit varint takes at most 5 bytes");
	VF_ASSERT((v < 128) == (wfile[0] >= 0x80), "values below 2^7 take one byte");
	VF_ASSERT(sgetb32(&R, &g) == 0 && sgetc(&R) == 'x', "get");
	VF_ASSERT(g == v, "sgetb32(sputb32(v)) == v for every 32-bit value");
	VF_ASSERT(consumed() == wlen, "decoder consumes exactly what the encoder produced");
	VF_WITNESS();
}
void c10_b64(void)
{
	uint64_t v = vf_in_u64(), g = 0; uint32_t le = vf_in_u32(), gle = 0;
	open_w(); wlen = 0;
	VF_ASSERT(sputb64(v, &W) == 0 && sputble32(le, &W) == 0, "put");
	reopen_written();
	VF_ASSERT(wlen <= 14, "a 64-bit varint takes at most 10 bytes");
	VF_ASSERT(sgetb64(&R, &g) == 0 && sgetble32(&R, &gle) == 0, "get");
	VF_ASSERT(g == v && gle == le, "sgetb64(sputb64(v)) == v for every 64-bit value; sgetble32(sputble32(v)) == v");
	VF_ASSERT(consumed() == wlen, "decoder consumes exactly what the encoder produced");
	VF_WITNESS();
}
void c10_bs(void)
{
	char s[STRSZ + 1], g[STRSZ + 2]; unsigned k; uint8_t n = vf_in_u8();
	VF_ASSUME(n <= STRSZ);
	for (k = 0; k < STRSZ; ++k) { s[k] = (char)vf_in_u8(); if (k < n) VF_ASSUME(s[k] != 0); }   /* names are arbitrary non-NUL bytes */
	s[n] = 0;
	open_w(); wlen = 0;
	VF_ASSERT(sputbs(s, &W) == 0, "put");
	VF_ASSERT(sputc('x', &W) == 0, "put");
	reopen_written();
	VF_ASSERT(sgetbs(&R, g, STRSZ + 2) == 0, "get");
	for (k = 0; k <= STRSZ; ++k) if (k <= n) VF_ASSERT(g[k] == s[k], "sgetbs(sputbs(s)) == s for every byte string");
	VF_ASSERT(sgetc(&R) == 'x', "next field starts right after the string");
	VF_WITNESS();
}
#ifdef NEGCTL
void c10_negctl(void)
{
	uint32_t v = vf_in_u32(), g = 0;
	open_w(); wlen = 0;
	sputb32(v, &W);
	reopen_written();
	sgetb32(&R, &g);
	VF_ASSERT(g == v || v != (1u << 28), "WRONG ORACLE shape");
	VF_ASSERT(wlen <= 4, "WRONG ORACLE: claims 4 bytes are enough for every 32-bit value");
}
#endif
