/*
 * C11 / C14 / C19 - classification of one scanned file: the real scan_file() and file_is_full_hashed_and_stable() of
 * cmdline/scan.c (with the real compare callbacks, file_copy, file_name of elem.c and the real inline hash-table search) against
 * a reference classifier written from the documentation.  One file K is known on the scanned disk, one file O on another disk;
 * all their attributes, the attributes of the scanned entry, the disk's inode/UUID flags and the options are symbolic; whether
 * the scanned path equals K's path / O's name is enumerated.
 * Decided: which counter moves (equal / move / restore / change / copy / add, hard link), that a file whose size or time-stamp
 * differs from the record is never kept (it is re-allocated with all blocks pending, i.e. read again), that a kept file is left
 * untouched, the zero-size interlock, and that hashes are inherited only from a fully hashed stable file with the same name,
 * size and time-stamp (inherited blocks are provisional, never synced).
 */
#include "portable.h"
#include "support.h"
#include "elem.h"
#include "state.h"
#include "vf.h"

#ifndef SAMEPATH
#define SAMEPATH 1      /* the scanned path equals the known file's path */
#endif
#ifndef OTHERSAME
#define OTHERSAME 1     /* the file on the other disk has the same name */
#endif

struct snapraid_scan {      /* as in scan.c (file-local type) */
	struct snapraid_state* state; struct snapraid_disk* disk; thread_id_t thread; int is_diff; int need_write;
	thread_mutex_t mutex;
	unsigned count_equal, count_move, count_restore, count_change, count_copy, count_insert, count_remove;
	tommy_list file_insert_list, link_insert_list, dir_insert_list; tommy_node node;
};
void __CPROVER_file_local_scan_c_scan_file(struct snapraid_scan* scan, int is_diff, const char* sub, struct stat* st, uint64_t physical);

int exit_success = 0, exit_failure = 1, exit_sync_needed = 2;
#ifndef VF_NATIVE
void* memcpy(void* dst, const void* src, size_t n) { unsigned char* d = dst; const unsigned char* s = src; size_t i; VF_ASSERT(n <= 16, "harness: memcpy <= 16"); for (i = 0; i < 16; ++i) if (i < n) d[i] = s[i]; return dst; }
void* memset(void* dst, int c, size_t n) { unsigned char* d = dst; size_t i; VF_ASSERT(n <= 16, "harness: memset <= 16"); for (i = 0; i < 16; ++i) if (i < n) d[i] = (unsigned char)c; return dst; }
#endif
static struct snapraid_state S; static struct snapraid_disk DK, OD; static struct snapraid_scan SC;
static struct snapraid_file K, O, NEWF; static unsigned char KV[1 + HASH_MAX], OV[1 + HASH_MAX], NV[1 + HASH_MAX];
static tommy_hashdyn_node* b_inode[1]; static tommy_hashdyn_node* b_path[1]; static tommy_hashdyn_node* b_stamp_dk[1]; static tommy_hashdyn_node* b_stamp_od[1];
static snapraid_info infos[1]; static void* seg[1];
static char k_name[2] = "a", new_name_same[2] = "a", new_name_other[2] = "b", o_name_same[2] = "a", o_name_other[2] = "c";
/* recorders */
static int n_keep, n_remove, n_insert, n_link, n_alloc, n_rename, refused; static struct snapraid_file* kept; static struct snapraid_file* removed; static struct snapraid_file* inserted;
void __CPROVER_file_local_scan_c_scan_file_keep(struct snapraid_scan* s, struct snapraid_file* f) { (void)s; ++n_keep; kept = f; }
void __CPROVER_file_local_scan_c_scan_file_remove(struct snapraid_scan* s, struct snapraid_file* f) { (void)s; ++n_remove; removed = f; }
void __CPROVER_file_local_scan_c_scan_file_insert(struct snapraid_scan* s, struct snapraid_file* f) { (void)s; ++n_insert; inserted = f; }
void __CPROVER_file_local_scan_c_scan_file_refresh(struct snapraid_scan* s, const char* sub, struct stat* st, uint64_t* ph) { (void)s; (void)sub; (void)st; (void)ph; }
void __CPROVER_file_local_scan_c_scan_link(struct snapraid_scan* s, int is_diff, const char* sub, const char* linkto, unsigned flag) { (void)s; (void)is_diff; (void)sub; (void)linkto; VF_ASSERT(flag == FILE_IS_HARDLINK, "hard link"); ++n_link; }
struct snapraid_file* file_alloc(unsigned bs, const char* sub, data_off_t size, uint64_t sec, int nsec, uint64_t inode, uint64_t physical)
{
	(void)bs; (void)physical; ++n_alloc;
	NEWF.sub = (char*)sub; NEWF.size = size; NEWF.blockmax = size ? 1 : 0; NEWF.mtime_sec = sec; NEWF.mtime_nsec = nsec; NEWF.inode = inode; NEWF.flag = 0; NEWF.blockvec = (struct snapraid_block*)NV;
	block_state_set(file_block(&NEWF, 0), BLOCK_STATE_CHG); hash_invalid_set(file_block(&NEWF, 0)->hash);      /* what the real file_alloc does: every block pending, no hash */
	return &NEWF;
}
void file_rename(struct snapraid_file* f, const char* sub) { ++n_rename; f->sub = (char*)sub; }
block_off_t fs_file2par_find(struct snapraid_disk* d, struct snapraid_file* f, block_off_t pos) { (void)d; (void)f; (void)pos; return 0; }
void tommy_hashdyn_insert(tommy_hashdyn* h, tommy_hashdyn_node* n, void* d, tommy_hash_t hash) { (void)h; (void)n; (void)d; (void)hash; }
void* tommy_hashdyn_remove_existing(tommy_hashdyn* h, tommy_hashdyn_node* n) { (void)h; return n->data; }
tommy_uint32_t tommy_hash_u32(tommy_uint32_t init, const void* key, tommy_size_t len) { const unsigned char* k = key; (void)init; return len ? k[0] * 7u + (tommy_uint32_t)len : 1u; }
void thread_mutex_lock(thread_mutex_t* m) { (void)m; } void thread_mutex_unlock(thread_mutex_t* m) { (void)m; }
const char* esc_tag(const char* s, char* b) { (void)b; return s; }
const char* fmt_term(const struct snapraid_disk* d, const char* s, char* b) { (void)d; (void)b; return s; }
const char* fmt_poll(const struct snapraid_disk* d, const char* s, char* b) { (void)d; (void)b; return s; }
void os_abort(void) { VF_ASSERT(0, "internal inconsistency reported by scan_file on a well-formed state"); VF_STOP(); }
#ifndef VF_NATIVE
void exit(int c) { (void)c; refused = 1;
	/* C14: the only refusal of scan_file is the zero-size interlock */
	VF_ASSERT(K.size != 0 && SAMEPATH && !S.opt.force_zero && !SC.is_diff, "C14: sync refuses only when a previously non-empty file now has zero size (same path, no --force-zero, not diff)");
	VF_ASSERT(n_alloc == 0 && n_insert == 0, "C14: nothing is recorded for the file before the refusal");
	VF_WITNESS(); VF_STOP(); }
#endif

void c11_scan_file(void)
{
	struct stat st; const char* sub = SAMEPATH ? new_name_same : new_name_other; int is_diff = vf_in_u8() & 1;
	int k_attr_same, by_inode, by_path, past_inodes, k_present, o_match, o_stable, st_nsec;
	/* the known file on the scanned disk */
	K.sub = k_name; K.size = vf_in_u32(); K.mtime_sec = vf_in_u32(); K.mtime_nsec = (int)(vf_in_u32() % 1000000001u) - 1; K.inode = vf_in_u32(); K.blockmax = K.size ? 1 : 0; K.blockvec = (struct snapraid_block*)KV;
	K.flag = (vf_in_u8() & 1) ? FILE_IS_PRESENT : 0;      /* already met during this scan (hard link case) */
	block_state_set(file_block(&K, 0), BLOCK_STATE_BLK);
	/* the file on the other disk (copy source candidate) */
	O.sub = OTHERSAME ? o_name_same : o_name_other; O.size = vf_in_u32(); O.mtime_sec = vf_in_u32(); O.mtime_nsec = (int)(vf_in_u32() % 1000000001u) - 1; O.inode = 77; O.blockmax = O.size ? 1 : 0; O.blockvec = (struct snapraid_block*)OV; O.flag = 0;
	{ unsigned stt = vf_in_u8() % 3; unsigned k; block_state_set(file_block(&O, 0), stt == 0 ? BLOCK_STATE_BLK : (stt == 1 ? BLOCK_STATE_REP : BLOCK_STATE_CHG)); for (k = 0; k < HASH_MAX; ++k) file_block(&O, 0)->hash[k] = vf_in_u8(); }
	infos[0] = vf_in_u32(); S.infoarr.element_size = sizeof(snapraid_info); S.infoarr.count = 1; seg[0] = infos; S.infoarr.block.bucket[0] = seg; S.infoarr.block.count = 1;
	BLOCK_HASH_SIZE = 16; S.block_size = 256; S.opt.force_zero = vf_in_u8() & 1; S.opt.force_nocopy = vf_in_u8() & 1; S.opt.gui = 0; S.command = "sync";
	/* disks */
	DK.has_volatile_inodes = vf_in_u8() & 1; DK.has_different_uuid = vf_in_u8() & 1; DK.has_unsupported_uuid = 0; DK.has_volatile_hardlinks = vf_in_u8() & 1;
	past_inodes = !DK.has_volatile_inodes && !DK.has_different_uuid;
	/* one-bucket hash tables (the search is the real inline code); without usable past inodes the loader has removed them from the inode set */
	K.nodeset.next = 0; K.nodeset.data = &K; K.nodeset.index = file_inode_hash(K.inode); K.pathset.next = 0; K.pathset.data = &K; K.pathset.index = file_path_hash(K.sub);
	O.stampset.next = 0; O.stampset.data = &O; O.stampset.index = file_stamp_hash(O.size, O.mtime_sec, O.mtime_nsec);
	b_inode[0] = (past_inodes || (K.flag & FILE_IS_PRESENT)) ? &K.nodeset : 0; if (!b_inode[0]) K.flag |= FILE_IS_WITHOUT_INODE;
	b_path[0] = &K.pathset; b_stamp_dk[0] = 0; b_stamp_od[0] = &O.stampset;
	DK.inodeset.bucket = b_inode; DK.inodeset.bucket_mask = 0; DK.pathset.bucket = b_path; DK.pathset.bucket_mask = 0; DK.stampset.bucket = b_stamp_dk; DK.stampset.bucket_mask = 0;
	OD.stampset.bucket = b_stamp_od; OD.stampset.bucket_mask = 0;
	tommy_list_init(&S.disklist); tommy_list_insert_tail(&S.disklist, &DK.node, &DK); tommy_list_insert_tail(&S.disklist, &OD.node, &OD);
	SC.state = &S; SC.disk = &DK; SC.is_diff = is_diff;
	/* the scanned entry */
	st.st_size = vf_in_u32(); st.st_mtime = vf_in_u32(); st_nsec = (int)(vf_in_u32() % 1000000000u); st.st_mtim.tv_nsec = st_nsec; st.st_ino = vf_in_u32(); st.st_nlink = 1 + (vf_in_u8() & 1);
	/* well-formedness of the state: a file met earlier in this scan with the same inode implies a second link */
	if ((K.flag & FILE_IS_PRESENT) && st.st_ino == K.inode) VF_ASSUME(st.st_nlink >= 2 || DK.has_volatile_hardlinks);
	/* a path can be met only once per scan: the known file with the same path has not been met yet */
	if (SAMEPATH) VF_ASSUME(!(K.flag & FILE_IS_PRESENT));

	k_present = (K.flag & FILE_IS_PRESENT) != 0;
	k_attr_same = K.size == st.st_size && K.mtime_sec == st.st_mtime && (K.mtime_nsec == st_nsec || K.mtime_nsec == STAT_NSEC_INVALID);
	by_inode = b_inode[0] != 0 && K.inode == st.st_ino;
	by_path = SAMEPATH;

	__CPROVER_file_local_scan_c_scan_file(&SC, is_diff, sub, &st, 0);

	/* ---- reference classification ---- */
	if (by_inode && (k_attr_same || k_present)) {
		if (k_present) { VF_ASSERT(n_link == 1 && n_alloc == 0 && n_keep == 0, "same inode as a file already met: a hard link, nothing else"); }
		else {
			VF_ASSERT(n_keep == 1 && kept == &K && n_alloc == 0 && n_remove == 0, "same inode, size and time-stamp: the file is kept with its parity and hashes");
			VF_ASSERT(SC.count_move == (SAMEPATH ? 0u : 1u) && SC.count_equal == (SAMEPATH ? 1u : 0u), "kept under a new path = move, same path = equal");
		}
	} else if (by_path && k_attr_same) {
		VF_ASSERT(n_keep == 1 && kept == &K && n_alloc == 0 && n_remove == 0, "same path, size and time-stamp: kept");
		VF_ASSERT(SC.count_restore == (past_inodes ? 1u : 0u) && SC.count_equal == (past_inodes ? 0u : 1u), "kept with a new inode = restore (equal when inodes are not persistent)");
		VF_ASSERT(K.inode == (past_inodes ? st.st_ino : K.inode) || !past_inodes, "the new inode is recorded");
	} else {
		/* changed or new: never kept; re-allocated, to be read again */
		VF_ASSERT(n_keep == 0, "C11: a file whose size or time-stamp differs from the record is never kept");
		VF_ASSERT(n_alloc == 1 && n_insert == 1 && inserted == &NEWF, "it is recorded anew");
		VF_ASSERT(NEWF.size == st.st_size && NEWF.mtime_sec == st.st_mtime && NEWF.mtime_nsec == st_nsec && NEWF.inode == st.st_ino, "with the attributes found on disk");
		if (by_path) VF_ASSERT(n_remove == 1 && removed == &K, "the old record of the same path is dropped"); else VF_ASSERT(n_remove == 0, "other records stay");
		/* copy detection */
		o_match = strcmp(sub, O.sub) == 0 && O.size == st.st_size && O.mtime_sec == st.st_mtime && O.mtime_nsec == st_nsec;   /* same name (= same path here), size, time-stamp */
		o_stable = O.blockmax != 0 && block_has_updated_hash(file_block(&O, 0)) && !info_get_rehash(infos[0]);
		if (SC.count_copy) {
			VF_ASSERT(!S.opt.force_nocopy && o_match && o_stable, "C19: hashes are inherited only from a fully hashed, stable file with the same name, size and time-stamp (never with --force-nocopy)");
			VF_ASSERT(NEWF.blockmax == 0 || block_state_get(file_block(&NEWF, 0)) == BLOCK_STATE_REP, "C19: inherited blocks are provisional (REP), never synced");
			VF_ASSERT(NEWF.flag & FILE_IS_COPY, "marked as copy");
		} else {
			VF_ASSERT(NEWF.blockmax == 0 || (block_state_get(file_block(&NEWF, 0)) == BLOCK_STATE_CHG && hash_is_invalid(file_block(&NEWF, 0)->hash)), "C11: every block of a new or changed file is pending without hash: it will be read");
			VF_ASSERT(SC.count_change == (by_path ? 1u : 0u) && SC.count_insert == (by_path ? 0u : 1u), "same path = change, otherwise add");
			if (!S.opt.force_nocopy && o_match && o_stable && NEWF.blockmax != 0) VF_ASSERT(0, "a matching stable copy source is used");
		}
		VF_ASSERT(SC.count_copy + SC.count_change + SC.count_insert == 1, "exactly one of copy / change / add");
		/* C14: reaching here with a zeroed file needs the override (or diff) */
		if (K.size != 0 && SAMEPATH && by_path && st.st_size == 0) VF_ASSERT(S.opt.force_zero || is_diff, "C14: a previously non-empty file found with zero size is only accepted with --force-zero");
	}
	VF_ASSERT(SC.count_equal + SC.count_move + SC.count_restore + SC.count_change + SC.count_copy + SC.count_insert + (unsigned)n_link == 1, "exactly one verdict per scanned file");
	VF_WITNESS();
}
#ifdef NEGCTL
void c11_negctl(void)
{
	struct stat st;
	K.sub = k_name; K.size = 10; K.mtime_sec = 5; K.mtime_nsec = 1; K.inode = 9; K.blockmax = 1; K.blockvec = (struct snapraid_block*)KV; K.flag = 0;
	K.nodeset.next = 0; K.nodeset.data = &K; K.nodeset.index = file_inode_hash(K.inode); K.pathset.next = 0; K.pathset.data = &K; K.pathset.index = file_path_hash(K.sub);
	b_inode[0] = &K.nodeset; b_path[0] = &K.pathset; DK.inodeset.bucket = b_inode; DK.pathset.bucket = b_path; DK.stampset.bucket = b_stamp_dk; OD.stampset.bucket = b_stamp_dk;
	tommy_list_init(&S.disklist); tommy_list_insert_tail(&S.disklist, &DK.node, &DK);
	SC.state = &S; SC.disk = &DK; S.block_size = 256; BLOCK_HASH_SIZE = 16; S.command = "sync";
	st.st_size = 10; st.st_mtime = vf_in_u32(); st.st_mtim.tv_nsec = 1; st.st_ino = 9; st.st_nlink = 1;
	__CPROVER_file_local_scan_c_scan_file(&SC, 0, new_name_same, &st, 0);
	VF_ASSERT(n_keep == 1, "WRONG ORACLE: a file with the same inode and size is kept whatever its time-stamp");
}
#endif
