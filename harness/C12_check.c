/*
 * C12 / C04 / C01 / C07 - one stripe of the real state_check_process() of cmdline/check.c (check, check -a, fix), whole function,
 * with the real block_is_enabled and file_post, on the ABSTRACT data plane (block size 8 = one 64-bit token per block):
 *   repair() = contract stub (the real repair / repair_step / blockcmp are decided in C01 / C05 / C04): with no damaged block it only
 *     recomputes the parity; otherwise it either fails (solver-chosen) or leaves in the buffer of every block marked bad the recorded
 *     content - or, for a pending block, possibly its previous content flagged out of date - and recomputes the parity;
 *   memhash = injective uninterpreted function (stubs/uf_slots.h); handle_* / parity_* / rename / remove = recorders over a ghost array.
 * Per disk: block state, file filtered out or not, file missing / opened, attributes changed, data equal or different from the record,
 * read fault; per level parity matching or not, unreadable, absent, excluded by the filter; fix / check / audit-only, --filter-*-style
 * options symbolic.
 * Post-conditions: what is written (C12), what is reported and the exit status (C04), what a created but unfinished file becomes (C07).
 */
#include "portable.h"
#include "support.h"
#include "elem.h"
#include "state.h"
#include "parity.h"
#include "handle.h"
#include "raid/raid.h"
#include "vf.h"

#ifndef ND
#define ND 2
#endif
#ifndef LEVEL
#define LEVEL 1
#endif
#define BS 8
#define NL (LEVEL > 0 ? LEVEL : 1)
#ifndef HOLES
#define HOLES 0
#endif
#define HOLE(j) ((HOLES >> (j)) & 1)
#define UFS_N (3 * ND)      /* slots: [0,ND) recorded hashes, [ND,2ND) the calls of the real code, [2ND,3ND) spare */
#include "stubs/uf_slots.h"

struct failed_struct { int is_bad; int is_outofdate; unsigned index; struct snapraid_block* block; struct snapraid_disk* disk; struct snapraid_file* file; block_off_t file_pos; struct snapraid_handle* handle; };   /* as in check.c */
int __CPROVER_file_local_check_c_state_check_process(struct snapraid_state* state, int fix, struct snapraid_parity_handle** parity, block_off_t blockstart, block_off_t blockmax);

enum { K_HOLE = 0, K_EMPTY, K_BLK, K_CHG, K_REP, K_DEL };
int msg_level = 0;

static struct snapraid_state S;
static struct snapraid_disk DK[ND];
static struct snapraid_file FL[ND];
static unsigned char BV[ND][1 + HASH_MAX] __attribute__((aligned(8)));
static struct snapraid_handle HM[ND];
static struct snapraid_parity_handle PH[NL]; static struct snapraid_parity_handle* PP[LEV_MAX];
static snapraid_info infos[2]; static void* seg[2];
static tommy_hashdyn_node* b_inode[ND][1];
/* ghost */
static unsigned kind[ND];
static uint64_t tok_rec[ND], tok_disk[ND], tok_old[ND];
static int attr_changed[ND], missing[ND], read_err[ND], excluded[ND];
static int perr[NL], par_ok[NL], par_absent[NL];
static int fix_mode, stop_now;
/* records */
static int n_write[ND], n_create[ND], n_trunc[ND], n_utime[ND], n_rename[ND], n_remove[ND], n_pwrite[NL], created_flag[ND]; static uint64_t written_tok[ND];
static int rep_called, rep_ok, rep_ood[ND];

static struct snapraid_block* blk(unsigned j) { return (struct snapraid_block*)BV[j]; }
static int has_block(unsigned j) { return kind[j] >= K_BLK; }
static int has_file(unsigned j) { return kind[j] == K_BLK || kind[j] == K_CHG || kind[j] == K_REP; }
static unsigned disk_index(struct snapraid_disk* d) { unsigned j; for (j = 0; j < ND; ++j) if (d == &DK[j]) return j; VF_ASSERT(0, "harness: unknown disk"); return 0; }
static unsigned handle_index(struct snapraid_handle* h) { unsigned j; for (j = 0; j < ND; ++j) if (h == &HM[j]) return j; VF_ASSERT(0, "harness: unknown handle"); return 0; }

struct snapraid_block* fs_par2block_find(struct snapraid_disk* disk, block_off_t pos) { unsigned j = disk_index(disk); (void)pos; return has_block(j) ? blk(j) : BLOCK_NULL; }
struct snapraid_file* fs_par2file_find(struct snapraid_disk* disk, block_off_t pos, block_off_t* file_pos) { unsigned j = disk_index(disk); (void)pos; VF_ASSERT(has_file(j), "file asked only for blocks that have one"); if (file_pos) *file_pos = 0; return &FL[j]; }
int file_block_is_last(struct snapraid_file* file, block_off_t file_pos) { VF_ASSERT(file_pos < file->blockmax, "file position in range"); return file_pos == file->blockmax - 1; }      /* as elem.c */
struct snapraid_handle* handle_mapping(struct snapraid_state* state, unsigned* handlemax)
{
	unsigned j; (void)state;
	for (j = 0; j < ND; ++j) { HM[j].disk = HOLE(j) ? 0 : &DK[j]; HM[j].file = 0; HM[j].f = -1; HM[j].path[0] = 0; HM[j].created = 0; }
	*handlemax = ND;
	return HM;
}
#ifndef VF_NATIVE
static int vf_errno; int* __errno_location(void) { return &vf_errno; }
#endif
void* memcpy(void* dst, const void* src, size_t n)
{
	if (n == 8) { *(uint64_t*)dst = *(const uint64_t*)src; }
	else if (n == 16) { ((uint64_t*)dst)[0] = ((const uint64_t*)src)[0]; ((uint64_t*)dst)[1] = ((const uint64_t*)src)[1]; }
	else VF_ASSERT(n == 0, "harness: memcpy sizes 0/8/16 on this data plane");
	return dst;
}
void* memset(void* dst, int c, size_t n)
{
	uint64_t w = (uint64_t)(unsigned char)c * 0x0101010101010101ULL;
	if (n == 8) { *(uint64_t*)dst = w; }
	else if (n == 16) { ((uint64_t*)dst)[0] = w; ((uint64_t*)dst)[1] = w; }
	else VF_ASSERT(n == 0, "harness: memset sizes 0/8/16 on this data plane");
	return dst;
}
int memcmp(const void* a, const void* b, size_t n)
{
	if (n == 8) return *(const uint64_t*)a != *(const uint64_t*)b;
	if (n == 16) return ((const uint64_t*)a)[0] != ((const uint64_t*)b)[0] || ((const uint64_t*)a)[1] != ((const uint64_t*)b)[1];
	VF_ASSERT(n == 0, "harness: memcmp sizes 0/8/16 on this data plane (callers only test == 0)");
	return 0;
}
int strcmp(const char* a, const char* b) { return a != b; }      /* names are distinct string objects per file */
unsigned memdiff(const unsigned char* a, const unsigned char* b, size_t n) { (void)a; (void)b; (void)n; return 1; }
static unsigned char pool[128] __attribute__((aligned(16))); static size_t pool_used;
static void* pool_get(size_t size) { void* p = &pool[pool_used]; pool_used += (size + 15) & ~(size_t)15; VF_ASSERT(pool_used <= sizeof(pool), "harness: pool large enough"); return p; }
void free(void* p) { (void)p; }
static struct failed_struct failed_store[ND]; static int n_malloc;
void* malloc_nofail(size_t size) { if (n_malloc++ == 0) { VF_ASSERT(size == sizeof(failed_store), "harness: failed[] layout"); return failed_store; } return pool_get(size); }
void* calloc_nofail(size_t n, size_t size) { void* p = pool_get(n * size); VF_ASSERT(n * size <= 8, "harness: bit vector of one word"); *(uint64_t*)p = 0; return p; }
static unsigned char dbuf[ND + 2 * NL + 1][BS] __attribute__((aligned(8))); static void* bufvec[ND + 2 * NL + 1];
void** malloc_nofail_vector_align(int nd, int n, size_t size, void** freeptr) { int i; (void)nd; VF_ASSERT(n == ND + 2 * LEVEL + 1 && size == BS, "buffer vector"); for (i = 0; i < n; ++i) bufvec[i] = dbuf[i]; *freeptr = bufvec; return bufvec; }
void pathprint(char* dst, size_t size, const char* format, ...) { (void)size; (void)format; dst[0] = 0; }
void pathcpy(char* dst, size_t size, const char* src) { (void)size; (void)src; dst[0] = 0; }
void os_abort(void) { VF_ASSERT(0, "os_abort reached (internal inconsistency)"); VF_STOP(); }
const char* esc_tag(const char* str, char* buffer) { (void)buffer; return str; }
const char* fmt_term(const struct snapraid_disk* disk, const char* str, char* buffer) { (void)disk; (void)buffer; return str; }
const char* lev_config_name(unsigned l) { (void)l; return ""; }
const char* lev_name(unsigned l) { (void)l; return ""; }
char* strerror(int e) { (void)e; return ""; }
void bw_init(struct snapraid_bw* bw, uint64_t limit) { (void)bw; (void)limit; }
void raid_zero(void* zero) { (void)zero; }
int state_progress_begin(struct snapraid_state* s, block_off_t a, block_off_t b, block_off_t c) { (void)s; (void)a; (void)b; (void)c; return 1; }
void state_progress_end(struct snapraid_state* s, block_off_t a, block_off_t b, data_off_t c) { (void)s; (void)a; (void)b; (void)c; }
int state_progress(struct snapraid_state* s, struct snapraid_io* io, block_off_t p, block_off_t a, block_off_t b, data_off_t c) { (void)s; (void)io; (void)p; (void)a; (void)b; (void)c; return stop_now; }

/* ---------------- data files ---------------- */
static void set_stat(struct snapraid_handle* h, struct snapraid_file* file, unsigned j, int fresh)
{
	h->st.st_size = fresh ? 0 : file->size + (attr_changed[j] == 1) - (attr_changed[j] == 4); h->st.st_mtime = file->mtime_sec + (attr_changed[j] == 2);
	h->st.st_mtim.tv_nsec = file->mtime_nsec + (attr_changed[j] == 3); h->st.st_ino = file->inode;
}
int handle_close(struct snapraid_handle* h) { h->file = 0; h->f = -1; return 0; }
int handle_open(struct snapraid_handle* h, struct snapraid_file* file, int mode, fptr* out, fptr* out_missing)
{
	unsigned j = handle_index(h); (void)mode; (void)out; (void)out_missing;
	VF_ASSERT(file == &FL[j], "a disk opens its own file");
	if (missing[j] && !created_flag[j]) { errno = ENOENT; return -1; }
	h->file = file; h->f = 3; h->created = 0; set_stat(h, file, j, created_flag[j]);
	return 0;
}
int handle_create(struct snapraid_handle* h, struct snapraid_file* file, int mode)
{
	unsigned j = handle_index(h); (void)mode;
	VF_ASSERT(fix_mode, "C12: only fix creates or opens a data file for writing");
	VF_ASSERT(file == &FL[j] && !excluded[j], "C12: fix never opens a filtered-out file for writing");
	++n_create[j];
	h->file = file; h->f = 3; h->created = missing[j] && !created_flag[j];
	if (h->created) created_flag[j] = 1;
	set_stat(h, file, j, created_flag[j]);
	return 0;
}
int handle_truncate(struct snapraid_handle* h, struct snapraid_file* f) { unsigned j = handle_index(h); (void)f; VF_ASSERT(fix_mode, "C12: only fix truncates a data file"); ++n_trunc[j]; return 0; }
int handle_utime(struct snapraid_handle* h)
{
	unsigned j = handle_index(h); VF_ASSERT(fix_mode, "C12: only fix sets the time of a data file");
#ifdef NEGCTL
	VF_ASSERT(0, "NEGCTL (wrong on purpose): fix never sets a modification time");
#endif
	++n_utime[j]; return 0;
}
int handle_read(struct snapraid_handle* h, block_off_t file_pos, unsigned char* buf, unsigned size, fptr* out, fptr* out_missing)
{
	unsigned j = handle_index(h); (void)file_pos; (void)out; (void)out_missing;
	VF_ASSERT(size == BS && h->file == &FL[j], "block size / open file");
	if (read_err[j] || created_flag[j]) { errno = read_err[j] ? EIO : ENOENT; return -1; }      /* a file just created is empty: nothing to read */
	memcpy(buf, &tok_disk[j], 8);
	return BS;
}
int handle_write(struct snapraid_handle* h, block_off_t file_pos, unsigned char* buf, unsigned size)
{
	unsigned j = handle_index(h);
	VF_ASSERT(fix_mode, "C12: only fix writes a data file");
	VF_ASSERT(size == BS && file_pos == 0 && h->file == &FL[j], "C12: the block is written at its own position of its own file");
	VF_ASSERT(!excluded[j], "C12: fix never writes a filtered-out file");
	VF_ASSERT(buf == dbuf[j], "C01: what is written is the buffer of that disk");
	++n_write[j]; memcpy(&written_tok[j], buf, 8);
	return 0;
}
/* empty files, links and directories are outside this harness (their lists are empty, every file has one block): the system calls of that part of
 * state_check_process must stay unreachable - CBMC's library model of close() alone (an unbounded __CPROVER_pipes array) made the formula explode */
#define UNREACH(name) VF_ASSERT(0, "harness: " name " is unreachable without empty files, links and directories")
int close(int fd) { (void)fd; UNREACH("close"); return 0; }
int open(const char* p, int flags, ...) { (void)p; (void)flags; UNREACH("open"); return -1; }
int stat(const char* p, struct stat* st) { (void)p; (void)st; UNREACH("stat"); return -1; }
int lstat(const char* p, struct stat* st) { (void)p; (void)st; UNREACH("lstat"); return -1; }
ssize_t readlink(const char* p, char* b, size_t n) { (void)p; (void)b; (void)n; UNREACH("readlink"); return -1; }
int symlink(const char* a, const char* b) { (void)a; (void)b; UNREACH("symlink"); return -1; }
int link(const char* a, const char* b) { (void)a; (void)b; UNREACH("link"); return -1; }
int mkdir(const char* p, mode_t m) { (void)p; (void)m; UNREACH("mkdir"); return -1; }
int mkancestor(const char* p) { (void)p; UNREACH("mkancestor"); return -1; }
int fmtime(int f, int64_t sec, int nsec) { (void)f; (void)sec; (void)nsec; UNREACH("fmtime"); return -1; }
int rename(const char* a, const char* b) { (void)a; (void)b; VF_ASSERT(fix_mode, "C12: only fix renames"); ++n_rename[0]; return 0; }
int remove(const char* a) { (void)a; VF_ASSERT(fix_mode, "C12: only fix removes"); ++n_remove[0]; return 0; }

/* ---------------- parity ---------------- */
static uint64_t rd_id[NL]; static int rd_valid[NL];
int parity_read(struct snapraid_parity_handle* h, block_off_t pos, unsigned char* buf, unsigned size, fptr* out)
{
	unsigned l = h->level; (void)pos; (void)out; VF_ASSERT(size == BS && l < LEVEL, "parity_read");
	if (perr[l]) { errno = EIO; return -1; }
	rd_id[l] = vf_in_u64(); rd_valid[l] = 1; memcpy(buf, &rd_id[l], 8);
	return BS;
}
int parity_write(struct snapraid_parity_handle* h, block_off_t pos, unsigned char* buf, unsigned size)
{
	unsigned l = h->level; (void)pos; (void)buf;
	VF_ASSERT(fix_mode, "C12: only fix writes parity");
	VF_ASSERT(size == BS && l < LEVEL, "parity_write");
	VF_ASSERT(buf == dbuf[ND + l], "C01: the parity written is the recomputed one");
	++n_pwrite[l];
	return 0;
}
/* ---------------- repair(): contract stub ---------------- */
int __CPROVER_file_local_check_c_repair(struct snapraid_state* state, int rehash, unsigned pos, unsigned diskmax, struct failed_struct* failed, unsigned* failed_map, unsigned failed_count, void** buffer, void** buffer_recov, void* buffer_zero)
{
	unsigned j, l; int any_bad = 0; (void)state; (void)rehash; (void)pos; (void)failed_map; (void)buffer_zero;
	VF_ASSERT(diskmax == ND && failed_count <= ND && buffer == bufvec, "repair geometry");
	++rep_called;
	for (j = 0; j < ND; ++j) if (j < failed_count) {
		unsigned d = failed[j].index;
		VF_ASSERT(d < ND && failed[j].block == blk(d) && failed[j].disk == &DK[d], "C01: a failed entry names its own disk and block");
		VF_ASSERT((failed[j].file == 0) == (kind[d] == K_DEL) && (failed[j].file == 0 || (failed[j].file == &FL[d] && failed[j].handle == &HM[d] && failed[j].file_pos == 0)), "C01: a failed entry names its own file, position and handle");
		if (j) VF_ASSERT(failed[j - 1].index < d, "C03 precondition: failed entries in increasing disk order");
		if (failed[j].is_bad) any_bad = 1;
	}
	if (any_bad && !rep_ok) return 1;
	for (j = 0; j < ND; ++j) if (j < failed_count && failed[j].is_bad) {
		unsigned d = failed[j].index; uint64_t t = tok_rec[d];
		if (kind[d] == K_CHG && rep_ood[d]) { t = tok_old[d]; failed[j].is_outofdate = 1; }
		memcpy(dbuf[d], &t, 8);
	}
	for (l = 0; l < LEVEL; ++l) { uint64_t t = vf_in_u64(); if (buffer_recov[l]) { VF_ASSERT(rd_valid[l], "a parity offered to repair was read"); if (par_ok[l]) t = rd_id[l]; else VF_ASSUME(t != rd_id[l]); } memcpy(dbuf[ND + l], &t, 8); }
	return 0;
}
void memhash(unsigned kind_, const unsigned char* seed, void* digest, const void* src, size_t size)
{
	unsigned j, slot = UFS_N; uint64_t w, d[2]; (void)seed;
	VF_ASSERT(size == BS, "harness: whole blocks are hashed");
	for (j = 0; j < ND; ++j) if (src == (const void*)dbuf[j]) slot = ND + j;
	memcpy(&w, src, 8);
	ufs_digest(slot, kind_, w, d);
	memcpy(digest, d, 16);
}

void c12_check_step(void)
{
	unsigned j, l; int ret, audit; snapraid_info info0; uint64_t drec[2];
	int data_bad[ND], any_err = 0, rehash_on;
	BLOCK_HASH_SIZE = 16;
	S.level = LEVEL; S.block_size = BS; S.hash = HASH_MURMUR3; S.prevhash = HASH_SPOOKY2; S.opt.skip_self = 1;
	fix_mode = vf_in_u8() & 1; audit = vf_in_u8() & 1;
#ifdef FIX
	fix_mode = FIX;
#endif
	if (fix_mode) audit = 0;                     /* fix always uses parity */
	S.opt.auditonly = audit; S.opt.syncedonly = vf_in_u8() & 1; S.opt.badblockonly = 0; S.opt.badfileonly = 0; S.opt.expected_missing = 0;
	info0 = vf_in_u32(); VF_ASSUME(info0 != 0);
#ifndef REHASH
	info0 &= ~(snapraid_info)2; VF_ASSUME(info0 != 0);
#endif
	infos[0] = info0; rehash_on = info_get_rehash(info0) != 0;
	S.infoarr.element_size = sizeof(snapraid_info); S.infoarr.count = 1; seg[0] = infos; S.infoarr.block.bucket[0] = seg; S.infoarr.block.count = 1;
	for (l = 0; l < LEVEL; ++l) {
		PH[l].level = l; PH[l].split_mac = 1; perr[l] = vf_in_u8() & 1; par_ok[l] = vf_in_u8() & 1; par_absent[l] = 0;
#ifdef NOPAR
		par_absent[l] = (NOPAR >> l) & 1;
#endif
		PP[l] = par_absent[l] ? 0 : &PH[l];
		S.parity[l].is_excluded_by_filter = vf_in_u8() & 1;
	}
	for (j = 0; j < ND; ++j) {
		kind[j] = HOLE(j) ? K_HOLE : 1 + vf_in_u8() % 5;
#ifdef KINDS
		{ static const unsigned char kk[] = { KINDS }; kind[j] = kk[j]; }
#endif
		tok_rec[j] = vf_in_u64(); tok_disk[j] = vf_in_u64(); tok_old[j] = vf_in_u64();
		attr_changed[j] = vf_in_u8() % 5; missing[j] = vf_in_u8() & 1; read_err[j] = vf_in_u8() & 1; excluded[j] = vf_in_u8() & 1; rep_ood[j] = vf_in_u8() & 1;
		FL[j].size = BS; FL[j].blockmax = 1; FL[j].mtime_sec = 100; FL[j].mtime_nsec = 5; FL[j].inode = 7 + j; FL[j].sub = j ? "g" : "f"; FL[j].flag = excluded[j] ? FILE_IS_EXCLUDED : 0;
		FL[j].blockvec = (struct snapraid_block*)BV[j];
		DK[j].name[0] = 'd'; DK[j].name[1] = 0; DK[j].dir[0] = 0;
		tommy_list_init(&DK[j].filelist); tommy_list_init(&DK[j].linklist); tommy_list_init(&DK[j].dirlist);
		if (has_file(j)) tommy_list_insert_tail(&DK[j].filelist, &FL[j].nodelist, &FL[j]);
		b_inode[j][0] = 0; DK[j].inodeset.bucket = b_inode[j]; DK[j].inodeset.bucket_mask = 0;      /* no other file of the disk has the inode of the repaired one */
		ufs_digest(j, (rehash_on && (kind[j] == K_BLK || kind[j] == K_REP)) ? S.prevhash : S.hash, tok_rec[j], drec);
		switch (kind[j]) {
		case K_HOLE: case K_EMPTY: break;
		case K_BLK: block_state_set(blk(j), BLOCK_STATE_BLK); memcpy(blk(j)->hash, drec, 16); break;
		case K_REP: block_state_set(blk(j), BLOCK_STATE_REP); memcpy(blk(j)->hash, drec, 16); break;
		case K_CHG: { unsigned hk = vf_in_u8() % 3; block_state_set(blk(j), BLOCK_STATE_CHG);
			if (hk == 0) memcpy(blk(j)->hash, drec, 16); else if (hk == 1) hash_zero_set(blk(j)->hash); else hash_invalid_set(blk(j)->hash); break; }
		default: { unsigned hk = vf_in_u8() & 1; block_state_set(blk(j), BLOCK_STATE_DELETED);
			if (hk == 0) memcpy(blk(j)->hash, drec, 16); else hash_invalid_set(blk(j)->hash); break; }
		}
	}
	rep_ok = vf_in_u8() & 1; stop_now = vf_in_u8() & 1;

	ret = __CPROVER_file_local_check_c_state_check_process(&S, fix_mode, PP, 0, 1);

	/* the stripe is selected when some parity is selected or some file of it is not filtered out (block_is_enabled) */
	{ int enabled = 0; for (l = 0; l < LEVEL; ++l) if (!S.parity[l].is_excluded_by_filter) enabled = 1; for (j = 0; j < ND; ++j) if (has_file(j) && !excluded[j]) enabled = 1;
	  if (!enabled) {
		for (j = 0; j < ND; ++j) VF_ASSERT(!n_write[j] && !n_create[j] && !n_trunc[j] && !n_utime[j] && !FL[j].flag == !excluded[j], "C12: a stripe that is filtered out is not touched");
		VF_ASSERT(!rep_called && ret == 0, "C12: a stripe that is filtered out is not examined");
		VF_WITNESS();
		return;
	  } }
	/* ---------------- C12: what was touched ---------------- */
	if (!fix_mode) {
		for (j = 0; j < ND; ++j) VF_ASSERT(!n_write[j] && !n_create[j] && !n_trunc[j] && !n_utime[j], "C12: check modifies no data file");
		for (l = 0; l < LEVEL; ++l) VF_ASSERT(!n_pwrite[l], "C12: check modifies no parity file");
		VF_ASSERT(!n_rename[0] && !n_remove[0], "C12: check renames and removes nothing");
	}
	for (j = 0; j < ND; ++j) {
		int opened_ok = has_file(j) && !(missing[j] && (!fix_mode || excluded[j]));
		data_bad[j] = 0;
		if (kind[j] == K_BLK || kind[j] == K_REP) data_bad[j] = !opened_ok || read_err[j] || created_flag[j] || tok_disk[j] != tok_rec[j];
		if (kind[j] == K_CHG) data_bad[j] = !opened_ok || read_err[j] || created_flag[j];
		if (n_write[j]) {
			VF_ASSERT(n_write[j] == 1 && has_file(j) && !excluded[j], "C12: at most one write per block, only into a selected file");
			VF_ASSERT(data_bad[j], "C12/C01: fix writes only blocks it found missing, unreadable or not matching their hash");
			VF_ASSERT(rep_called && rep_ok, "C01: fix writes only after a successful reconstruction");
			VF_ASSERT(written_tok[j] == tok_rec[j] || (kind[j] == K_CHG && rep_ood[j] && written_tok[j] == tok_old[j]), "C01: what fix writes is the reconstructed recorded content");
			VF_ASSERT(file_flag_has(&FL[j], FILE_IS_FIXED) || file_flag_has(&FL[j], FILE_IS_DAMAGED), "C12: a file fix wrote to is reported as recovered or as unrecoverable");
			if (kind[j] == K_CHG && rep_ood[j]) VF_ASSERT(file_flag_has(&FL[j], FILE_IS_DAMAGED), "C05: content that may be out of date is never reported as recovered");
			if (S.opt.syncedonly) VF_ASSERT(!file_flag_has(&FL[j], FILE_IS_UNSYNCED), "C12: with the synced-only filter a file changed since the sync is not written");
		}
		if (excluded[j]) VF_ASSERT(!n_create[j] && !n_trunc[j] && !n_utime[j] && !n_write[j], "C12: a filtered-out file is never touched");
	}
	/* a file that fix created but did not finish (nothing written, nothing reported) is removed again */
	if (fix_mode) {
		int unfinished = 0, reported_unrec = 0;
		for (j = 0; j < ND; ++j) if (created_flag[j]) {
			int reported = (file_flag_has(&FL[j], FILE_IS_FIXED) || file_flag_has(&FL[j], FILE_IS_DAMAGED)) && !(S.opt.syncedonly && file_flag_has(&FL[j], FILE_IS_UNSYNCED));
			if (!reported) ++unfinished;      /* neither 'recovered' nor renamed to .unrecoverable */
		}
		for (j = 0; j < ND; ++j) if (file_flag_has(&FL[j], FILE_IS_DAMAGED) && has_file(j) && !excluded[j] && !(S.opt.syncedonly && file_flag_has(&FL[j], FILE_IS_UNSYNCED))) ++reported_unrec;
		VF_ASSERT(n_remove[0] == unfinished, "C07/C12: exactly the files fix created without finishing them are removed again");
		VF_ASSERT(n_rename[0] == reported_unrec, "C12: exactly the selected files that could not be recovered are renamed to .unrecoverable");
	}
	for (l = 0; l < LEVEL; ++l) if (n_pwrite[l]) {
		int valid = 1, used = 0;
		for (j = 0; j < ND; ++j) { if (kind[j] == K_CHG || kind[j] == K_REP || kind[j] == K_DEL) valid = 0; if (has_file(j)) used = 1; }
		VF_ASSERT(n_pwrite[l] == 1 && valid && used && !par_absent[l] && !S.parity[l].is_excluded_by_filter, "C12: fix rewrites a parity block only on a fully synced, used stripe of a selected, present parity");
		VF_ASSERT(perr[l] || !par_ok[l], "C12: fix rewrites a parity block only if it was unreadable or wrong");
		VF_ASSERT(rep_called && rep_ok, "C01: and only after a successful reconstruction");
	}
	/* ---------------- C04: detection and exit status (default expectations) ---------------- */
	for (j = 0; j < ND; ++j) if (data_bad[j] && !(audit && excluded[j]) && (kind[j] == K_BLK || kind[j] == K_REP)) any_err = 1;
	if (!fix_mode) {
		int valid = 1, used = 0, parity_bad = 0;
		for (j = 0; j < ND; ++j) { if (kind[j] == K_CHG || kind[j] == K_REP || kind[j] == K_DEL) valid = 0; if (has_file(j)) used = 1; }
		if (!audit) for (l = 0; l < LEVEL; ++l) if (!par_absent[l] && (perr[l] || (valid && used && !any_err && !par_ok[l]))) parity_bad = 1;
		if (any_err) VF_ASSERT(ret == -1, "C04: a synced block that is missing, unreadable or does not match its hash makes check fail");
		if (valid && used && !any_err && !audit) { for (l = 0; l < LEVEL; ++l) if (!par_absent[l] && !perr[l] && !par_ok[l]) VF_ASSERT(ret == -1, "C04: a parity block that differs from the recomputed one on a fully synced stripe makes check fail"); }
		{ int chg_bad = 0; for (j = 0; j < ND; ++j) if (kind[j] == K_CHG && data_bad[j]) chg_bad = 1;
		  if (!any_err && !parity_bad && !chg_bad) VF_ASSERT(ret == 0, "C04: on a stripe without damage check reports no error"); }
		for (j = 0; j < ND; ++j) if (!data_bad[j] && has_file(j)) VF_ASSERT(!file_flag_has(&FL[j], FILE_IS_DAMAGED) && !file_flag_has(&FL[j], FILE_IS_FIXED), "C04: an undamaged file is reported neither damaged nor recoverable");
	}
	VF_ASSERT(infos[0] == info0, "C12: check and fix leave the per-stripe info alone");
	for (j = 0; j < ND; ++j) if (has_block(j)) { VF_ASSERT(block_state_get(blk(j)) == (kind[j] == K_BLK ? BLOCK_STATE_BLK : kind[j] == K_CHG ? BLOCK_STATE_CHG : kind[j] == K_REP ? BLOCK_STATE_REP : BLOCK_STATE_DELETED), "C12: check and fix never change a block state"); }
	VF_WITNESS();
}
