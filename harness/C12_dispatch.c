/*
 * C12 / C14 - command dispatch: the real main() of cmdline/snapraid.c with every callee replaced by a recorder that
 * returns an arbitrary result.  The command word is enumerated (CMD), the callee results (state_sync failing, need_write,
 * lock acquisition, presence of a lock file name) are symbolic.  Decided: which mutating entry points each command can
 * reach, with which arguments, and the lock discipline (taken before the state is read, refusal before anything else).
 */
#include "portable.h"
#include "support.h"
#include "elem.h"
#include "state.h"
#include "snapraid.h"
#include "import.h"
#include "search.h"
#include "vf.h"
#include <getopt.h>

#ifndef CMD
#define CMD "sync"
#endif
int main(int argc, char* argv[]);
int snapraid_main(int argc, char* argv[]);

enum { E_LOCK = 1, E_UNLOCK, E_READ, E_SCAN, E_WRITE, E_SYNC, E_CHECK, E_FIX, E_SCRUB, E_TOUCH, E_POOL, E_REHASH, E_DIFF, E_STATUS, E_LIST, E_DUP, E_DEVICE, E_DRY, E_IMPORT, E_FILTER, E_EXIT, E_CONFIG };
#define EVMAX 24
static int ev[EVMAX]; static unsigned evn; static int exit_code = -99;
static void rec(int e) { VF_ASSERT(evn < EVMAX, "harness: event log large enough"); ev[evn++] = e; }
static int seen(int e) { unsigned i; for (i = 0; i < EVMAX; ++i) if (i < evn && ev[i] == e) return 1; return 0; }
static int first(int e) { unsigned i; for (i = 0; i < EVMAX; ++i) if (i < evn && ev[i] == e) return (int)i; return 999; }
static int lock_ok, have_lockfile, sync_ret, check_ret, scrub_ret, diff_ret, nw;

int opterr, optind = 1; char* optarg;
int exit_success = 0, exit_failure = 1, exit_sync_needed = 2; int thread_cond_signal_outside; int msg_level; int FMT_MODE; FILE* stdlog;
int getopt_long(int argc, char* const* argv, const char* s, const struct option* lo, int* li) { (void)argc; (void)argv; (void)s; (void)lo; (void)li; return -1; }   /* no options on the command line */
static int expect_refusal;
void exit(int c)
{
	exit_code = c; rec(E_EXIT);
	if (expect_refusal) {
		unsigned i;
		VF_ASSERT(c != 0, "C14: refusal ends with a failing status");
		for (i = 0; i < EVMAX; ++i) if (i + 1 < evn) VF_ASSERT(ev[i] == E_CONFIG || ev[i] == E_LOCK, "C14: when another command holds the lock nothing is read, scanned, written or repaired");
		VF_WITNESS();
	}
	VF_STOP();
}
void os_init(int o) { (void)o; } void os_done(void) { } void lock_init(void) { } void lock_done(void) { } void raid_init(void) { } void crc32c_init(void) { } void raid_mode(int m) { (void)m; }
void selftest(void) { } unsigned sleep(unsigned s) { (void)s; return 0; } size_t malloc_counter_get(void) { return 0; }
int sigaction(int s, const struct sigaction* a, struct sigaction* o) { (void)s; (void)a; (void)o; return 0; } int sigemptyset(sigset_t* s) { (void)s; return 0; }
time_t time(time_t* t) { if (t) *t = 5; return 5; } struct tm* localtime_r(const time_t* t, struct tm* r) { (void)t; return r; } size_t strftime(char* s, size_t m, const char* f, const struct tm* tm) { (void)m; (void)f; (void)tm; s[0] = 0; return 0; }
int access(const char* p, int m) { (void)p; (void)m; return 0; }
void pathcpy(char* d, size_t n, const char* s) { (void)n; (void)s; d[0] = 0; } void pathimport(char* d, size_t n, const char* s) { (void)n; (void)s; d[0] = 0; }
void pathcat(char* d, size_t n, const char* s) { (void)d; (void)n; (void)s; } void pathcatc(char* d, size_t n, char c) { (void)d; (void)n; (void)c; }
int printf(const char* f, ...) { (void)f; return 0; } int puts(const char* s) { (void)s; return 0; } int putchar(int c) { return c; }
const char* esc_shell_multi(const char** m, unsigned n, char* b) { (void)m; (void)n; b[0] = 0; return b; }

void state_init(struct snapraid_state* s) { s->need_write = 0; s->clear_past_hash = 0; s->lockfile[0] = 0; s->opt.auditonly = 0; s->opt.force_nocopy = 0; s->opt.force_content_write = 0; }
void state_done(struct snapraid_state* s) { (void)s; }
void state_config(struct snapraid_state* s, const char* path, const char* command, struct snapraid_option* opt, struct tommy_list_struct* fl)
{ (void)path; (void)command; (void)fl; rec(E_CONFIG); s->opt = *opt; s->lockfile[0] = have_lockfile ? 'l' : 0; s->lockfile[1] = 0; }
int lock_lock(const char* f) { (void)f; rec(E_LOCK); if (!lock_ok) { errno = EWOULDBLOCK; return -1; } return 7; }
int lock_unlock(int f) { VF_ASSERT(f == 7, "the descriptor returned by lock_lock is the one released"); rec(E_UNLOCK); return 0; }
void state_read(struct snapraid_state* s) { (void)s; rec(E_READ); }
void state_scan(struct snapraid_state* s) { (void)s; rec(E_SCAN); } void state_refresh(struct snapraid_state* s) { (void)s; }
void state_write(struct snapraid_state* s) { (void)s; rec(E_WRITE); }
int state_sync(struct snapraid_state* s, block_off_t a, block_off_t b) { (void)a; (void)b; VF_ASSERT(s->clear_past_hash == 1, "C07: sync distrusts past hashes (clear_past_hash set before the state is read)"); rec(E_SYNC); s->need_write = nw; return sync_ret; }
int state_check(struct snapraid_state* s, int fix, block_off_t a, block_off_t b) { (void)s; (void)a; (void)b; rec(fix ? E_FIX : E_CHECK); return check_ret; }
int state_scrub(struct snapraid_state* s, int plan, int older) { (void)plan; (void)older; rec(E_SCRUB); s->need_write = nw; return scrub_ret; }
void state_touch(struct snapraid_state* s) { (void)s; rec(E_TOUCH); } void state_pool(struct snapraid_state* s) { (void)s; rec(E_POOL); }
void state_rehash(struct snapraid_state* s) { rec(E_REHASH); s->need_write = nw; }
int state_diff(struct snapraid_state* s) { (void)s; rec(E_DIFF); return diff_ret; }
int state_status(struct snapraid_state* s) { (void)s; rec(E_STATUS); return 0; } void state_list(struct snapraid_state* s) { (void)s; rec(E_LIST); } void state_dup(struct snapraid_state* s) { (void)s; rec(E_DUP); }
void state_device(struct snapraid_state* s, int op, tommy_list* fl) { (void)s; (void)op; (void)fl; rec(E_DEVICE); }
void state_dry(struct snapraid_state* s, block_off_t a, block_off_t b) { (void)s; (void)a; (void)b; rec(E_DRY); }
void state_skip(struct snapraid_state* s) { (void)s; }
void state_filter(struct snapraid_state* s, tommy_list* a, tommy_list* b, int m, int e) { (void)s; (void)a; (void)b; (void)m; (void)e; rec(E_FILTER); }
void state_search(struct snapraid_state* s, const char* d) { (void)s; (void)d; rec(E_IMPORT); } void state_import(struct snapraid_state* s, const char* d) { (void)s; (void)d; rec(E_IMPORT); }
void state_search_array(struct snapraid_state* s) { (void)s; rec(E_IMPORT); }
void speed(int p) { (void)p; } void generate_configuration(const char* p) { (void)p; }
void filter_free(struct snapraid_filter* f) { (void)f; }


void c12_dispatch(void)
{
	static char a0[] = "snapraid", a1[] = CMD; char* argv[3]; int r; const char* c = CMD;
	argv[0] = a0; argv[1] = a1; argv[2] = 0;
	lock_ok = vf_in_u8() & 1; have_lockfile = vf_in_u8() & 1; sync_ret = (vf_in_u8() & 1) ? -1 : 0; check_ret = (vf_in_u8() & 1) ? -1 : 0; scrub_ret = (vf_in_u8() & 1) ? -1 : 0;
	diff_ret = vf_in_u8() % 3 - 1; nw = vf_in_u8() & 1;
	VF_ASSUME(lock_ok);    /* the refusal path is c14_lock_refused */
	r = main(2, argv);
	if (strcmp(c, "devices") == 0 || strcmp(c, "smart") == 0) VF_ASSERT(!seen(E_LOCK) && !seen(E_READ) && !seen(E_WRITE), "devices / smart neither lock nor load nor save anything");
	VF_ASSERT(r == 0, "a command that reaches the end reports success");
	/* ---- C14: lock held for the whole command ---- */
	/* devices and smart deliberately run without the lock (they change nothing and must work while another command runs) */
	if (have_lockfile && strcmp(c, "devices") != 0 && strcmp(c, "smart") != 0) {
		VF_ASSERT(seen(E_LOCK) && seen(E_UNLOCK), "the lock is taken and released");
		VF_ASSERT(first(E_LOCK) < first(E_READ) && first(E_LOCK) < first(E_DEVICE), "the lock is taken before the state is read or anything is done");
		VF_ASSERT(ev[evn - 1] == E_UNLOCK, "the lock is released last");
	}
	/* ---- C12: what each command may reach ---- */
	{
		int is_sync = strcmp(c, "sync") == 0, is_fix = strcmp(c, "fix") == 0, is_scrub = strcmp(c, "scrub") == 0, is_touch = strcmp(c, "touch") == 0, is_rehash = strcmp(c, "rehash") == 0, is_pool = strcmp(c, "pool") == 0;
		int is_rewrite = strcmp(c, "rewrite") == 0;
		if (!(is_sync || is_scrub || is_touch || is_rehash || is_rewrite)) VF_ASSERT(!seen(E_WRITE), "status, diff, list, dup, check, fix, pool, devices ... never write content files");
		if (!is_sync) VF_ASSERT(!seen(E_SYNC) && !seen(E_SCAN), "only sync scans the disks and updates parity");
		if (!is_fix) VF_ASSERT(!seen(E_FIX), "only fix runs the recovery with write access");
		if (!is_scrub) VF_ASSERT(!seen(E_SCRUB), "only scrub scrubs");
		if (!is_touch) VF_ASSERT(!seen(E_TOUCH), "only touch changes time-stamps");
		if (!is_pool) VF_ASSERT(!seen(E_POOL), "only pool touches the pool directory");
		if (!is_rehash) VF_ASSERT(!seen(E_REHASH), "only rehash schedules a hash migration");
		if (is_sync) VF_ASSERT(first(E_READ) < first(E_SCAN) && first(E_SCAN) < first(E_SYNC), "sync: read, scan, sync");
		if (is_sync && seen(E_WRITE)) VF_ASSERT(first(E_SYNC) < first(E_WRITE) && nw, "sync saves the content only after the sync pass and only when something changed");
		if (is_scrub && seen(E_WRITE)) VF_ASSERT(first(E_SCRUB) < first(E_WRITE) && nw, "scrub saves the content only when it changed marks");
		if (is_fix) VF_ASSERT(seen(E_FIX) && !seen(E_CHECK), "fix = state_check with fix enabled");
		if (strcmp(c, "check") == 0) VF_ASSERT(seen(E_CHECK) && !seen(E_FIX), "check = state_check without fix");
	}
	VF_WITNESS();
}
void c14_lock_refused(void)
{
	static char a0[] = "snapraid", a1[] = CMD; char* argv[3];
	argv[0] = a0; argv[1] = a1; argv[2] = 0;
	lock_ok = 0; have_lockfile = 1; nw = vf_in_u8() & 1; sync_ret = 0; check_ret = 0; scrub_ret = 0; diff_ret = 0;
	expect_refusal = 1;
	main(2, argv);
	VF_ASSERT(0, "C14: with the lock held by another command the run cannot complete");   /* unreachable: exit() cuts the path (its assertions and the witness live there) */
}
#ifdef NEGCTL
void c12_negctl(void)
{
	static char a0[] = "snapraid", a1[] = "sync"; char* argv[3];
	argv[0] = a0; argv[1] = a1; argv[2] = 0;
	lock_ok = 1; have_lockfile = 1; sync_ret = -1; nw = 1;
	expect_refusal = 1;     /* WRONG ORACLE: claims that a sync whose lock succeeded stops before reading anything */
	main(2, argv);
}
void c12_negctl2(void)
{
	static char a0[] = "snapraid", a1[] = "sync"; char* argv[3];
	argv[0] = a0; argv[1] = a1; argv[2] = 0;
	lock_ok = 1; have_lockfile = 1; sync_ret = 0; nw = 1;
	main(2, argv);
	VF_ASSERT(!seen(E_WRITE), "WRONG ORACLE: sync never saves the content");
}
#endif
