/*
 * C13 - I/O ring of cmdline/io.c: every critical section (the code between lock and unlock/wait) of the real
 * io_reader_step, io_writer_step, io_task_read_thread, io_parity_write_thread, io_read_next_thread,
 * io_write_next_thread is executed from an ARBITRARY state satisfying the ring invariant; all other threads are
 * abstracted by "anything that preserves the invariant" (thread_cond_wait = release, havoc shared state, re-acquire).
 *
 * Ring invariant (per worker):
 *   INV_R(i): reader_index < io_max, reader i's index < io_max, and if the caller already took reader i's slot
 *             (i removed from reader_list) then reader i is not working on reader_index (exclusive ownership);
 *   INV_W(i): writer_index < io_max, writer i's index < io_max, writer i's index != writer_index, and if the caller
 *             already collected writer i (removed from writer_list) writer i is not working on writer_index + 1.
 */
#include "portable.h"
#include "support.h"
#include "elem.h"
#include "state.h"
#include "io.h"
#include "vf.h"

#ifndef NRD
#define NRD 2   /* representative readers (the invariant is per worker; two cover the list handling) */
#endif
#ifndef NWR
#define NWR 2
#endif
#define MAXWAIT 2

struct snapraid_task* __CPROVER_file_local_io_c_io_reader_step(struct snapraid_worker* worker);
struct snapraid_task* __CPROVER_file_local_io_c_io_writer_step(struct snapraid_worker* worker, int state);
block_off_t __CPROVER_file_local_io_c_io_read_next_thread(struct snapraid_io* io, void*** buffer);
void __CPROVER_file_local_io_c_io_write_next_thread(struct snapraid_io* io, block_off_t blockcur, int skip, int* writer_error);
struct snapraid_task* __CPROVER_file_local_io_c_io_task_read_thread(struct snapraid_io* io, unsigned base, unsigned count, unsigned* pos, unsigned* waiting_map, unsigned* waiting_mac);
void __CPROVER_file_local_io_c_io_parity_write_thread(struct snapraid_io* io, unsigned* pos, unsigned* waiting_map, unsigned* waiting_mac);
block_off_t __CPROVER_file_local_io_c_io_position_next(struct snapraid_io* io);

static struct snapraid_io IO;
static struct snapraid_worker RD[NRD], WR[NWR];
static unsigned char rlist[NRD + 2], wlist[NWR + 2];
static void* bufrow[IO_MAX][NRD + NWR];
static unsigned char bufs[4];

/* ---- ghost state of the synchronisation primitives ---- */
static int held, nwait, sig_read_done, sig_write_done, bc_read_sched, bc_write_sched;
static thread_cond_t* waited;
static int role_hint_same = 1;
static int role;   /* who is running the step: 1 reader worker, 2 writer worker, 3 caller */
static unsigned self;   /* index of the worker running the step */

static int taken_r(unsigned i) { unsigned c = IO.reader_list[0], k; for (k = 0; k <= NRD; ++k) { if (c == i) return 0; if (c >= IO.reader_max) return 1; c = IO.reader_list[c + 1]; } return 1; }
static int taken_w(unsigned i) { unsigned c = IO.writer_list[0], k; for (k = 0; k <= NWR; ++k) { if (c == i) return 0; if (c >= IO.writer_max) return 1; c = IO.writer_list[c + 1]; } return 1; }

static int inv(void)
{
	unsigned i; int ok = IO.io_max >= IO_MIN && IO.io_max <= IO_MAX && IO.reader_index < IO.io_max && IO.writer_index < IO.io_max;
	for (i = 0; i < NRD; ++i) {
		ok = ok && RD[i].index < IO.io_max;
		if (taken_r(i)) ok = ok && RD[i].index != IO.reader_index;
	}
	for (i = 0; i < NWR; ++i) {
		ok = ok && WR[i].index < IO.io_max && WR[i].index != IO.writer_index;
		if (taken_w(i)) ok = ok && WR[i].index != (IO.writer_index + 1) % IO.io_max;
	}
	return ok;
}
/* well-formed "still to collect" lists: increasing chains ending at max (what io_read_next / io_write_next build and the collectors shorten) */
static void any_list(unsigned char* l, unsigned max)
{
	unsigned i;
	for (i = 0; i <= max; ++i) { l[i] = vf_in_u8(); VF_ASSUME(l[i] >= i && l[i] <= max); }
	l[max + 1] = max;
}
static void any_state(void)
{
	unsigned i;
#ifdef IOMAX
	IO.io_max = IOMAX;      /* enumerated by the driver: a symbolic modulus puts a divider circuit behind every ring index */
#else
	IO.io_max = vf_in_u8();
#endif
	IO.reader_index = vf_in_u8(); IO.writer_index = vf_in_u8();
#ifdef RIDX
	/* the slot being scheduled is enumerated by the driver (first, second, last but one, last): a symbolic slot makes every
	 * field written by io_reader_sched / io_writer_sched an update of a 128-element array of structs */
	IO.reader_index = (RIDX) % IO.io_max; IO.writer_index = role_hint_same ? IO.reader_index : IO.writer_index;
#endif
	IO.done = vf_in_u8() & 1;
	IO.reader_max = NRD; IO.writer_max = NWR; IO.reader_map = RD; IO.writer_map = WR;
	IO.reader_list = rlist; IO.writer_list = wlist;
	IO.data_base = 0; IO.data_count = NRD; IO.parity_base = NRD; IO.parity_count = 0;
	any_list(rlist, NRD); any_list(wlist, NWR);
	for (i = 0; i < NRD; ++i) { RD[i].io = &IO; RD[i].index = vf_in_u8(); RD[i].buffer_skew = 0; RD[i].handle = 0; RD[i].parity_handle = 0; }
	for (i = 0; i < NWR; ++i) { WR[i].io = &IO; WR[i].index = vf_in_u8(); WR[i].buffer_skew = NRD; WR[i].handle = 0; WR[i].parity_handle = 0; }
	for (i = 0; i < IO_MAX; ++i) IO.buffer_map[i] = bufrow[i];
	for (i = 0; i < IO_WRITER_ERROR_MAX; ++i) { IO.writer_error[i] = vf_in_u8(); }
	VF_ASSUME(inv());
	held = 0; nwait = 0; sig_read_done = sig_write_done = bc_read_sched = bc_write_sched = 0;
}

void thread_mutex_lock(thread_mutex_t* m) { VF_ASSERT(m == &IO.io_mutex && !held, "lock: the io mutex, not already held"); held = 1; }
void thread_mutex_unlock(thread_mutex_t* m) { VF_ASSERT(m == &IO.io_mutex && held, "unlock: held"); held = 0; }
void thread_cond_signal_and_unlock(thread_cond_t* c, thread_mutex_t* m)
{
	VF_ASSERT(m == &IO.io_mutex && held, "signal: mutex held");
	if (c == &IO.read_done) ++sig_read_done; else if (c == &IO.write_done) ++sig_write_done; else VF_ASSERT(0, "unexpected condition signalled");
	held = 0;
}
void thread_cond_broadcast_and_unlock(thread_cond_t* c, thread_mutex_t* m)
{
	VF_ASSERT(m == &IO.io_mutex && held, "broadcast: mutex held");
	if (c == &IO.read_sched) ++bc_read_sched; else if (c == &IO.write_sched) ++bc_write_sched; else VF_ASSERT(0, "unexpected condition broadcast");
	held = 0;
}
/* wait = release the mutex, let every other thread run any number of steps (any state satisfying the invariant in which
 * this thread's own fields are unchanged), re-acquire */
void thread_cond_wait(thread_cond_t* c, thread_mutex_t* m)
{
	unsigned i, own_index = 0; unsigned char own_list[NRD + NWR + 4]; unsigned r0 = IO.reader_index, w0 = IO.writer_index;
	VF_ASSERT(m == &IO.io_mutex && held, "wait: mutex held");
	waited = c;
	if (++nwait > MAXWAIT) VF_STOP();      /* bound: at most MAXWAIT wake-ups per step */
	if (role == 1) own_index = RD[self].index;
	if (role == 2) own_index = WR[self].index;
	for (i = 0; i <= NRD + 1; ++i) own_list[i] = rlist[i];
	for (i = 0; i <= NWR + 1; ++i) own_list[NRD + 2 + i] = wlist[i];
	/* havoc what other threads own */
	IO.done = vf_in_u8() & 1;
	for (i = 0; i < NRD; ++i) RD[i].index = vf_in_u8();
	for (i = 0; i < NWR; ++i) WR[i].index = vf_in_u8();
	for (i = 0; i < IO_WRITER_ERROR_MAX; ++i) IO.writer_error[i] = vf_in_u8();
	if (role == 3) {
		/* the caller sleeps: reader_index / writer_index / the lists are its own */
	} else {
		IO.reader_index = vf_in_u8(); IO.writer_index = vf_in_u8();
		any_list(rlist, NRD); any_list(wlist, NWR);
	}
	if (role == 1) RD[self].index = own_index;
	if (role == 2) WR[self].index = own_index;
	if (role == 3) { VF_ASSUME(IO.reader_index == r0 && IO.writer_index == w0); }
	(void)own_list;
	VF_ASSUME(inv());
}
void thread_cond_broadcast(thread_cond_t* c) { if (c == &IO.read_sched) ++bc_read_sched; else if (c == &IO.write_sched) ++bc_write_sched; }
void thread_cond_signal(thread_cond_t* c) { (void)c; }

/* ---- (G) reader worker step ---- */
void c13_reader_step(void)
{
	unsigned w0, r_at_ret; struct snapraid_task* t;
	any_state();
	role = 1; self = 0;   /* workers are symmetric: worker 0 without loss of generality (a symbolic worker makes every update a whole-array update) */
	w0 = RD[self].index;
	t = __CPROVER_file_local_io_c_io_reader_step(&RD[self]);
	r_at_ret = IO.reader_index;
	VF_ASSERT(!held, "mutex released on return");
	VF_ASSERT(inv(), "ring invariant re-established");
	if (t) {
		VF_ASSERT(RD[self].index != r_at_ret, "a reader never takes the slot the computing thread is using");
		VF_ASSERT(t == &RD[self].task_map[RD[self].index], "returned task is the one of the new index");
		if (nwait == 0) {
			VF_ASSERT(RD[self].index == (w0 + 1) % IO.io_max, "slots are taken strictly in ring order");
		}
		/* the caller sleeps on read_done exactly when the worker it needs is still on reader_index: whatever happened while this
		 * worker waited, leaving that slot must wake the caller (no lost wake-up) */
		if (w0 == r_at_ret) VF_ASSERT(sig_read_done >= 1, "leaving the slot the caller waits for wakes the caller (no lost wake-up)");
	} else {
		VF_ASSERT(IO.done, "a reader stops only when told to");
		VF_ASSERT(RD[self].index == w0 || nwait > 0, "no slot taken when stopping");
	}
	VF_WITNESS();
}
/* ---- (G) writer worker step, including the error accounting ---- */
void c13_writer_step(void)
{
	unsigned w0, k; int st, e0[IO_WRITER_ERROR_MAX]; struct snapraid_task* t;
	any_state();
	role = 2; self = 0;
	st = (int)(vf_in_u8() % 7) - 4;     /* TASK_STATE_IOERROR_CONTINUE .. TASK_STATE_DONE */
	w0 = WR[self].index;
	for (k = 0; k < IO_WRITER_ERROR_MAX; ++k) e0[k] = IO.writer_error[k];
	t = __CPROVER_file_local_io_c_io_writer_step(&WR[self], st);
	VF_ASSERT(!held, "mutex released on return");
	VF_ASSERT(inv(), "ring invariant re-established");
	if (nwait == 0) {
		for (k = 0; k < IO_WRITER_ERROR_MAX; ++k)
			VF_ASSERT(IO.writer_error[k] == e0[k] + ((st < 0 && (int)k == st - IO_WRITER_ERROR_BASE) ? 1 : 0), "a failed write is counted exactly once, in the counter of its kind");
	}
	if (t) {
		VF_ASSERT(WR[self].index != IO.writer_index, "a writer never takes the slot being filled by the computing thread");
		VF_ASSERT(t == &WR[self].task_map[WR[self].index], "returned task is the one of the new index");
		if (nwait == 0) {
			VF_ASSERT(WR[self].index == (w0 + 1) % IO.io_max, "slots are taken strictly in ring order");
		}
		if (w0 == (IO.writer_index + 1) % IO.io_max) VF_ASSERT(sig_write_done >= 1, "leaving the slot the caller waits for wakes the caller, also after having waited (no lost wake-up)");
	} else {
		VF_ASSERT(IO.done, "a writer stops only when told to");
		VF_ASSERT((WR[self].index + 1) % IO.io_max == IO.writer_index, "a writer stops only after draining every scheduled write");
	}
	VF_WITNESS();
}
/* ---- (S) the caller collects a reader's slot only when the reader has left it ---- */
void c13_task_read(void)
{
	unsigned pos = 99, wm[NRD + 1], wmac = 0; struct snapraid_task* t; int was_taken[NRD]; unsigned i;
	any_state();
	role = 3;
	VF_ASSUME(IO.reader_list[0] != IO.reader_max);        /* precondition of the callers: something left to collect */
	for (i = 0; i < NRD; ++i) was_taken[i] = taken_r(i);
	t = __CPROVER_file_local_io_c_io_task_read_thread(&IO, 0, NRD, &pos, wm, &wmac);
	VF_ASSERT(!held, "mutex released on return");
	VF_ASSERT(pos < NRD && t == &RD[pos].task_map[IO.reader_index], "returns the task of a reader at the caller's slot");
	VF_ASSERT(!was_taken[pos], "each reader is collected once per stripe");
	VF_ASSERT(RD[pos].index != IO.reader_index, "no buffer is handed to the computing thread while its reader is still on it");
	VF_ASSERT(taken_r(pos), "collected reader removed from the pending list");
	for (i = 0; i < NRD; ++i) if (i != pos) VF_ASSERT(taken_r(i) == was_taken[i], "other readers stay as they were");
	VF_ASSERT(inv(), "ring invariant re-established");
	VF_WITNESS();
}
void c13_parity_write(void)
{
	unsigned pos = 99, wm[NWR + 1], wmac = 0; int was_taken[NWR]; unsigned i;
	any_state();
	role = 3;
	VF_ASSUME(IO.writer_list[0] != IO.writer_max);
	for (i = 0; i < NWR; ++i) was_taken[i] = taken_w(i);
	__CPROVER_file_local_io_c_io_parity_write_thread(&IO, &pos, wm, &wmac);
	VF_ASSERT(!held, "mutex released on return");
	VF_ASSERT(pos < NWR && !was_taken[pos] && taken_w(pos), "each writer is collected once per stripe");
	VF_ASSERT(WR[pos].index != (IO.writer_index + 1) % IO.io_max, "the slot about to be reused is not being written by its writer");
	VF_ASSERT(inv(), "ring invariant re-established");
	VF_WITNESS();
}
/* ---- (O) the caller advances the ring by exactly one slot, schedules the slot it leaves, and wakes the workers ---- */
void c13_read_next(void)
{
	void** buffer = 0; unsigned r0, i; block_off_t next0, got; static bit_vect_t en[2];
	any_state();
	role = 3;
	VF_ASSUME(IO.reader_list[0] == IO.reader_max);        /* all readers collected (asserted by the code as well) */
	en[0] = vf_in_u8(); en[1] = 0;
	IO.block_enabled = (vf_in_u8() & 1) ? &en[0] : (bit_vect_t*)0;
	IO.block_max = vf_in_u8(); VF_ASSUME(IO.block_max <= 8);
	IO.block_next = vf_in_u8(); VF_ASSUME(IO.block_next <= 9);
	next0 = IO.block_next;
	r0 = IO.reader_index;
	for (i = 0; i < NRD; ++i) RD[i].task_map[(r0 + 1) % IO.io_max].position = 1000 + i;
	got = __CPROVER_file_local_io_c_io_read_next_thread(&IO, &buffer);
	VF_ASSERT(!held && bc_read_sched == 1, "all readers are woken after scheduling");
	VF_ASSERT(IO.reader_index == (r0 + 1) % IO.io_max, "the ring advances by exactly one slot");
	VF_ASSERT(buffer == IO.buffer_map[IO.reader_index], "buffers handed out are those of the new slot");
	VF_ASSERT(got == 1000, "position returned is the one stored in the new slot");
	for (i = 0; i < NRD; ++i) {
		block_off_t p = RD[i].task_map[r0].position;
		VF_ASSERT(p >= next0 && IO.block_next == p + 1, "the slot just left is scheduled with the next position, for every reader");
		VF_ASSERT(RD[i].task_map[r0].state == (p < IO.block_max ? TASK_STATE_READY : TASK_STATE_EMPTY), "ready unless past the end");
		if (IO.block_enabled && p < IO.block_max) {
			block_off_t q;
			VF_ASSERT(en[0] & (1u << p), "only enabled positions are scheduled");
			for (q = 0; q < 8; ++q) if (q >= next0 && q < p) VF_ASSERT(!(en[0] & (1u << q)), "no enabled position is skipped");
		}
		if (!IO.block_enabled) VF_ASSERT(p == next0, "without a plan every position is processed in order");
		VF_ASSERT(!taken_r(i), "every reader must be collected again for the new stripe");
	}
	VF_ASSERT(inv(), "ring invariant re-established");
	VF_WITNESS();
}
void c13_write_next(void)
{
	int we[IO_WRITER_ERROR_MAX], e0[IO_WRITER_ERROR_MAX]; unsigned w0, i, k; int skip = vf_in_u8() & 1; block_off_t cur = vf_in_u8();
	any_state();
	role = 3;
	VF_ASSUME(IO.writer_list[0] == IO.writer_max && IO.writer_index == IO.reader_index);   /* asserted by the code */
	for (k = 0; k < IO_WRITER_ERROR_MAX; ++k) e0[k] = IO.writer_error[k];
	w0 = IO.writer_index;
	__CPROVER_file_local_io_c_io_write_next_thread(&IO, cur, skip, we);
	VF_ASSERT(!held && bc_write_sched == 1, "all writers are woken after scheduling");
	VF_ASSERT(IO.writer_index == (w0 + 1) % IO.io_max, "the ring advances by exactly one slot");
	for (k = 0; k < IO_WRITER_ERROR_MAX; ++k) VF_ASSERT(we[k] == e0[k] && IO.writer_error[k] == 0, "errors counted so far are reported once and cleared");
	for (i = 0; i < NWR; ++i) {
		VF_ASSERT(WR[i].task_map[w0].position == cur && WR[i].task_map[w0].state == (skip ? TASK_STATE_EMPTY : TASK_STATE_READY), "the slot just left is scheduled for every writer");
		VF_ASSERT(!taken_w(i), "every writer must be collected again");
	}
	VF_ASSERT(inv(), "ring invariant re-established");
	VF_WITNESS();
}
#ifdef NEGCTL
void c13_negctl(void)
{
	struct snapraid_task* t;
	any_state();
	role = 1; self = 0;
	t = __CPROVER_file_local_io_c_io_reader_step(&RD[0]);
	/* wrong oracle: claims a reader may never be on the slot *before* reader_index */
	if (t) VF_ASSERT((RD[0].index + 1) % IO.io_max != IO.reader_index, "WRONG ORACLE");
}
#endif
