/*
 * C14 - the "all files of a disk are missing / rewritten" interlock: the verbatim block of state_diffscan() (cmdline/scan.c)
 * that follows the comment "check for disks where all the previously existing files where removed" (lib/slicer.py), run on
 * NDISK disks whose scan counters, --force-empty and diff-vs-sync are symbolic.
 * Decided: the command stops, with a failing status, exactly when --force-empty is absent, the command is not diff, and some
 * disk has no file left equal / moved / restored while some file was removed or changed; nothing of the state is modified.
 */
#include "portable.h"
#include "support.h"
#include "elem.h"
#include "state.h"
#include "vf.h"
#ifndef NDISK
#define NDISK 3
#endif
struct snapraid_scan {      /* as in scan.c (file-local type) */
	struct snapraid_state* state; struct snapraid_disk* disk; thread_id_t thread; int is_diff; int need_write;
	thread_mutex_t mutex;
	unsigned count_equal, count_move, count_restore, count_change, count_copy, count_insert, count_remove;
	tommy_list file_insert_list, link_insert_list, dir_insert_list; tommy_node node;
};
void vf_slice_allmissing(struct snapraid_state* state, tommy_list scanlist, int is_diff);
int exit_success = 0, exit_failure = 1, exit_sync_needed = 2;
static struct snapraid_state S; static struct snapraid_disk D[NDISK]; static struct snapraid_scan SC[NDISK];
static int expect_refuse, refused, need_write0;
#ifndef VF_NATIVE
void exit(int c)
{
	refused = 1;
	VF_ASSERT(c != 0, "C14: the refusal is a failing status");
	VF_ASSERT(expect_refuse, "C14: the command stops only when a disk lost all its files, without --force-empty, and it is not diff");
	VF_ASSERT(S.need_write == need_write0, "C14: nothing modified at the refusal");
	VF_WITNESS(); VF_STOP();
}
#endif
void c14_allmissing(void)
{
	unsigned k; int some = 0; int is_diff;
	tommy_list_init(&S.disklist); tommy_list scanlist; tommy_list_init(&scanlist);
	for (k = 0; k < NDISK; ++k) {
		D[k].name[0] = (char)('a' + k); D[k].name[1] = 0; D[k].dir[0] = '/'; D[k].dir[1] = 0;
		SC[k].state = &S; SC[k].disk = &D[k];
		SC[k].count_equal = vf_in_u32(); SC[k].count_move = vf_in_u32(); SC[k].count_restore = vf_in_u32(); SC[k].count_change = vf_in_u32();
		SC[k].count_copy = vf_in_u32(); SC[k].count_insert = vf_in_u32(); SC[k].count_remove = vf_in_u32();
		tommy_list_insert_tail(&S.disklist, &D[k].node, &D[k]);
		tommy_list_insert_tail(&scanlist, &SC[k].node, &SC[k]);
		if (SC[k].count_equal == 0 && SC[k].count_move == 0 && SC[k].count_restore == 0 && (SC[k].count_remove != 0 || SC[k].count_change != 0)) some = 1;
	}
	S.opt.force_empty = vf_in_u8() & 1; is_diff = vf_in_u8() & 1; S.need_write = need_write0 = vf_in_u8() & 1; S.command = "sync";
#ifdef NEGCTL
	expect_refuse = some && !is_diff;                           /* wrong on purpose: ignores --force-empty */
#else
	expect_refuse = some && !S.opt.force_empty && !is_diff;
#endif
	vf_slice_allmissing(&S, scanlist, is_diff);
	VF_ASSERT(!expect_refuse, "C14: a disk that lost all its files stops the command (unless --force-empty / diff)");
	VF_ASSERT(S.need_write == need_write0, "C14: the check itself modifies nothing");
	VF_WITNESS();
}
