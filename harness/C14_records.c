/*
 * C14 - block size / hash size interlocks while loading the content file: verbatim slices of the 'z' and 'y' record
 * handlers of state_read_content() (lib/slicer.py).  The recorded value (all 32-bit values, fixed-width varint) and the
 * configured value are symbolic: loading continues exactly when they agree (or no configuration file is in use), otherwise
 * the command stops with a failing status, and nothing is modified before that.
 */
#include "portable.h"
#include "support.h"
#include "elem.h"
#include "state.h"
#include "stream.h"
#include "vf.h"
struct vf_slice_ctx { struct snapraid_state* state; const char* path; STREAM* f; block_off_t blockmax; unsigned count_file; unsigned count_hardlink; unsigned count_symlink; unsigned count_dir; int crc_checked; tommy_array disk_mapping; uint32_t mapping_max; int c; };
void vf_slice_z(struct vf_slice_ctx* ctx);
void vf_slice_y(struct vf_slice_ctx* ctx);
int exit_success = 0, exit_failure = 1, exit_sync_needed = 2;
static unsigned char mem[8]; static unsigned mlen, mpos;
static void put8(unsigned char c) { mem[mlen++] = c; }
static void put32(uint32_t v) { unsigned k; for (k = 0; k < 4; ++k) { put8(v & 0x7f); v >>= 7; } put8((unsigned char)(v | 0x80)); }
ssize_t read(int fd, void* buf, size_t n) { unsigned i, m = mlen - mpos; (void)fd; if (m > n) m = n; for (i = 0; i < 8; ++i) if (i < m) ((unsigned char*)buf)[i] = mem[mpos + i]; mpos += m; return m; }
static uint32_t crc_none(uint32_t crc, const unsigned char* p, unsigned n) { (void)p; (void)n; return crc; }
uint32_t (*crc32c)(uint32_t crc, const unsigned char* ptr, unsigned size) = crc_none; int crc_x86;
static unsigned char rb[8]; static struct stream_handle rh; static STREAM R; static struct snapraid_state S;
static int stopped, stop_code; static uint32_t rec, conf; static int which;
void __CPROVER_file_local_state_c_decoding_error(const char* path, STREAM* f) { (void)path; (void)f; }
void os_abort(void) { stopped = 1; VF_WITNESS(); VF_STOP(); }
#ifndef VF_NATIVE
void exit(int c)
{
	stopped = 1; stop_code = c;
	VF_ASSERT(c != 0, "C14: the refusal is a failing status");
	if (which == 0) VF_ASSERT(rec == 0 || (!S.no_conf && rec != conf), "C14: loading stops only for a zero or mismatching block size");
	else VF_ASSERT(rec < 2 || rec > HASH_MAX || (!S.no_conf && rec != conf), "C14: loading stops only for an invalid or mismatching hash size");
	VF_WITNESS(); VF_STOP();
}
#endif
void c14_record_zy(void)
{
	struct vf_slice_ctx C;
	which = WHICH;
	rec = vf_in_u32(); conf = vf_in_u32(); S.no_conf = vf_in_u8() & 1;
	if (which == 0) S.block_size = conf; else { VF_ASSUME(conf >= 2 && conf <= HASH_MAX); BLOCK_HASH_SIZE = (int)conf; }
	mlen = 0; put32(rec);
	STREAM_SIZE = 8; R.buffer = rb; R.pos = rb; R.end = rb; R.state = STREAM_STATE_READ; R.handle_size = 1; R.handle = &rh; rh.f = 3; mpos = 0;
	C.state = &S; C.path = "c"; C.f = &R; C.blockmax = 0; C.mapping_max = 0; C.c = which == 0 ? 'z' : 'y';
	if (which == 0) vf_slice_z(&C); else vf_slice_y(&C);
	/* loading continues: the values agree */
	if (which == 0) { VF_ASSERT(rec != 0 && S.block_size == rec, "C14: loading continues only with the block size recorded in the content file"); if (!S.no_conf) VF_ASSERT(rec == conf, "configured block size equals the recorded one"); }
	else { VF_ASSERT(rec >= 2 && rec <= HASH_MAX && BLOCK_HASH_SIZE == (int)rec, "C14: loading continues only with the hash size recorded in the content file"); if (!S.no_conf) VF_ASSERT(rec == conf, "configured hash size equals the recorded one"); }
	VF_WITNESS();
}
