/*
 * C14 / C06 / C07 - the protocol of the real state_sync() (cmdline/sync.c): parity size interlock before any resize, content
 * saved after the resize and before the first parity write, nothing touched after a refusal.  parity_* / state_* callees are
 * recorders with symbolic answers (sizes per level, failures), state_sync_process and state_hash_process are recorders.
 */
#include "portable.h"
#include "support.h"
#include "elem.h"
#include "state.h"
#include "parity.h"
#include "handle.h"
#include "io.h"
#include "vf.h"

#ifndef NLEV
#define NLEV 2
#endif
enum { E_CREATE = 1, E_CHSIZE, E_WRITE, E_PROCESS, E_HASH, E_CLOSE, E_EXIT, E_REFRESH };
#define EVMAX 24
static int ev[EVMAX]; static unsigned evn;
static void rec(int e) { VF_ASSERT(evn < EVMAX, "harness: event log"); ev[evn++] = e; }
static int seen(int e) { unsigned i; for (i = 0; i < EVMAX; ++i) if (i < evn && ev[i] == e) return 1; return 0; }
static int first(int e) { unsigned i; for (i = 0; i < EVMAX; ++i) if (i < evn && ev[i] == e) return (int)i; return 999; }
static int last(int e) { int r = -1; unsigned i; for (i = 0; i < EVMAX; ++i) if (i < evn && ev[i] == e) r = (int)i; return r; }

int exit_success = 0, exit_failure = 1, exit_sync_needed = 2;
static struct snapraid_state S;
static block_off_t alloc_blocks, used_blocks, file_blocks[NLEV];
static int create_fail[NLEV], chsize_fail[NLEV], chsize_mod[NLEV], hash_skip, hash_ret, process_ret, refused;

block_off_t parity_allocated_size(struct snapraid_state* s) { (void)s; return alloc_blocks; }
block_off_t parity_used_size(struct snapraid_state* s) { (void)s; return used_blocks; }
int parity_create(struct snapraid_parity_handle* h, const struct snapraid_parity* p, unsigned level, int mode, uint32_t bs, data_off_t lim) { (void)p; (void)mode; (void)bs; (void)lim; rec(E_CREATE); h->level = level; return create_fail[level] ? -1 : 0; }
void parity_size(struct snapraid_parity_handle* h, data_off_t* out) { *out = (data_off_t)file_blocks[h->level] * S.block_size; }
int parity_chsize(struct snapraid_parity_handle* h, struct snapraid_parity* p, int* is_modified, data_off_t size, uint32_t bs, int sf, int ss)
{ (void)p; (void)bs; (void)sf; (void)ss; rec(E_CHSIZE); VF_ASSERT(size == (data_off_t)alloc_blocks * S.block_size, "every level is resized to the allocated size"); if (chsize_fail[h->level]) return -1; *is_modified = chsize_mod[h->level]; return 0; }
void parity_overflow(struct snapraid_state* s, data_off_t size) { (void)s; (void)size; }
int parity_close(struct snapraid_parity_handle* h) { (void)h; rec(E_CLOSE); return 0; }
void state_refresh(struct snapraid_state* s) { (void)s; rec(E_REFRESH); }
void state_write(struct snapraid_state* s) { (void)s; rec(E_WRITE); }
int __CPROVER_file_local_sync_c_state_sync_process(struct snapraid_state* s, struct snapraid_parity_handle* ph, block_off_t a, block_off_t b) { (void)s; (void)ph; VF_ASSERT(a < b, "a non-empty range"); rec(E_PROCESS); return process_ret; }
int __CPROVER_file_local_sync_c_state_hash_process(struct snapraid_state* s, block_off_t a, block_off_t b, int* skip_sync) { (void)s; (void)a; (void)b; rec(E_HASH); *skip_sync = hash_skip; return hash_ret; }
const char* lev_name(unsigned l) { (void)l; return ""; }
#ifndef VF_NATIVE
void exit(int c) { VF_ASSERT(c != 0, "a refusal ends with a failing status"); refused = 1; rec(E_EXIT);
	/* whatever the reason for stopping: no content file written and no parity resized or written before it unless the checks passed */
	if (!seen(E_CHSIZE)) VF_ASSERT(!seen(E_WRITE) && !seen(E_PROCESS), "C14: a sync that stops before the resize has altered neither content nor parity files");
	VF_WITNESS();   /* reachability of the refusal paths */
	VF_STOP(); }
#endif

void c14_state_sync(void)
{
	unsigned l; int ret; block_off_t minblocks = 0; int short_parity;
	S.level = NLEV; S.block_size = 256; S.need_write = vf_in_u8() & 1;
	S.opt.force_realloc = vf_in_u8() & 1; S.opt.force_full = vf_in_u8() & 1; S.opt.prehash = vf_in_u8() & 1; S.opt.skip_content_write = 0;
	alloc_blocks = vf_in_u8(); used_blocks = vf_in_u8(); VF_ASSUME(used_blocks <= alloc_blocks);
	for (l = 0; l < NLEV; ++l) { file_blocks[l] = vf_in_u8(); create_fail[l] = (vf_in_u8() & 7) == 0; chsize_fail[l] = (vf_in_u8() & 7) == 0; chsize_mod[l] = vf_in_u8() & 1; if (l == 0 || file_blocks[l] < minblocks) minblocks = file_blocks[l]; }
	hash_skip = vf_in_u8() & 1; hash_ret = (vf_in_u8() & 1) ? -1 : 0; process_ret = (vf_in_u8() & 1) ? -1 : 0;
	short_parity = minblocks < used_blocks;
#ifdef EXPECT_REFUSAL
	/* the interlock: some parity file smaller than the recorded state requires, no forced rebuild */
	VF_ASSUME(short_parity && !S.opt.force_realloc && !S.opt.force_full);
	for (l = 0; l < NLEV; ++l) VF_ASSUME(!create_fail[l]);
	ret = state_sync(&S, 0, 0);
	(void)ret;
	VF_ASSERT(0, "C14: sync refuses to proceed when a parity file is smaller than the recorded state requires");   /* unreachable: exit() cut the path */
#else
	ret = state_sync(&S, 0, 0);
	/* state_sync returned: it was allowed to proceed */
	VF_ASSERT(!short_parity || S.opt.force_realloc || S.opt.force_full, "C14: proceeding with a short parity file needs --force-full / --force-realloc");
	if (seen(E_PROCESS)) {
		VF_ASSERT(last(E_CHSIZE) < first(E_PROCESS), "C07: parity files are resized before the first stripe is processed");
		if (seen(E_WRITE)) VF_ASSERT(last(E_CHSIZE) < first(E_WRITE) && first(E_WRITE) < first(E_PROCESS), "C06/C07: the content file is saved after the resize and before any parity is written");
		{ int mod = S.need_write; (void)mod; }
	}
	if (S.opt.prehash && hash_skip) VF_ASSERT(!seen(E_CHSIZE) && !seen(E_PROCESS) && !seen(E_WRITE), "C19: a pre-hash mismatch stops the sync before any parity is resized or overwritten");
	if (S.opt.prehash && hash_skip) VF_ASSERT(1, "");
	VF_ASSERT((ret == -1) == ((S.opt.prehash && hash_ret == -1) || (seen(E_PROCESS) && process_ret == -1)), "a failed pass makes state_sync fail");
	VF_WITNESS();
#endif
}
#ifdef NEGCTL
void c14_negctl(void)
{
	S.level = 1; S.block_size = 256; alloc_blocks = 10; used_blocks = 10; file_blocks[0] = 10; S.opt.prehash = 0; S.need_write = 1;
	state_sync(&S, 0, 0);
	VF_ASSERT(first(E_PROCESS) < first(E_WRITE), "WRONG ORACLE: content saved after the stripes");
}
#endif
