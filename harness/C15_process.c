/*
 * C15 / C04 / C08 / C12 - one stripe of the real state_scrub_process() of cmdline/scrub.c, whole function, with the real
 * scrub_data_reader and scrub_parity_reader and block_is_enabled, on the ABSTRACT data plane (DESIGN.md 2.4):
 *   block_size 8 = one 64-bit token per block; memhash = injective uninterpreted function of (kind, token);
 *   raid_gen = per level either the token the parity file returned (parity_ok) or a different fresh one;
 *   io_* = contract stubs re-stating the single-thread semantics (io.c itself is decided in C13 / the mono harness);
 *   handle_* / parity_* = stubs that return the ghost contents or an error chosen by the solver.
 * Pre-state: per disk any block state (hole / empty / BLK / CHG / REP / DELETED), data on disk equal to or different from the
 * recorded one, changed attributes, open / read faults; per level parity matching or not, read faults; any info word
 * (bad / rehash / just-synced bits, time), symbolic clock.
 * Post-condition: the books of the stripe (info word, rehashed hashes), the exit status, and "nothing written".
 */
#include "portable.h"
#include "support.h"
#include "elem.h"
#include "state.h"
#include "parity.h"
#include "handle.h"
#include "io.h"
#include "raid/raid.h"
#include "vf.h"

#ifndef ND
#define ND 2
#endif
#ifndef LEVEL
#define LEVEL 1
#endif
#define BS 8
#define NL (LEVEL > 0 ? LEVEL : 1)
#ifndef HOLES
#define HOLES 0          /* bit mask of disk positions that are not used by any disk (enumerated by the driver) */
#endif
#define HOLE(j) ((HOLES >> (j)) & 1)
#define UFS_N (4 * ND)      /* slots: [0,ND) recorded hashes, [ND,3ND) the calls of the real code (disk, new/previous kind), [3ND,4ND) reference for the data read */
#include "stubs/uf_slots.h"

struct snapraid_plan { struct snapraid_state* state; int plan; time_t timelimit; block_off_t lastlimit; block_off_t countlast; };   /* as in scrub.c */
int __CPROVER_file_local_scrub_c_state_scrub_process(struct snapraid_state* state, struct snapraid_parity_handle* parity_handle, block_off_t blockstart, block_off_t blockmax, struct snapraid_plan* plan, time_t now);

enum { K_HOLE = 0, K_EMPTY, K_BLK, K_CHG, K_REP, K_DEL };

static struct snapraid_state S;
static struct snapraid_disk DK[ND];
static struct snapraid_file FL[ND];
static unsigned char BV[ND][1 + HASH_MAX] __attribute__((aligned(8)));
static unsigned char BV0[ND][1 + HASH_MAX];
static struct snapraid_handle* HMAP;
static struct snapraid_parity_handle PH[NL];
static snapraid_info infos[2]; static void* seg[2];
/* ghost */
static unsigned kind[ND];
static uint64_t tok_rec[ND], tok_disk[ND];
static int attr_changed[ND], open_err[ND], read_err[ND];
static int perr[NL], par_ok[NL];
static int wrote, state_written, stop_now, rehash_on;

static struct snapraid_block* blk(unsigned j) { return (struct snapraid_block*)BV[j]; }
static int has_block(unsigned j) { return kind[j] >= K_BLK; }
static unsigned disk_index(struct snapraid_disk* d) { unsigned j; for (j = 0; j < ND; ++j) if (d == &DK[j]) return j; VF_ASSERT(0, "harness: unknown disk"); return 0; }

struct snapraid_block* fs_par2block_find(struct snapraid_disk* disk, block_off_t pos) { unsigned j = disk_index(disk); (void)pos; return has_block(j) ? blk(j) : BLOCK_NULL; }
/* fs_par2file_get is a static inline of elem.h that calls fs_par2file_find: the stub must be the latter (a body-less find returns an unconstrained pointer) */
struct snapraid_file* fs_par2file_find(struct snapraid_disk* disk, block_off_t pos, block_off_t* file_pos) { unsigned j = disk_index(disk); (void)pos; VF_ASSERT(kind[j] == K_BLK || kind[j] == K_CHG || kind[j] == K_REP, "file asked only for blocks that have one"); *file_pos = 0; return &FL[j]; }
struct snapraid_handle* handle_mapping(struct snapraid_state* state, unsigned* handlemax)
{
	unsigned j; (void)state;
	static struct snapraid_handle hm[ND]; HMAP = hm;
	for (j = 0; j < ND; ++j) { HMAP[j].disk = HOLE(j) ? 0 : &DK[j];      /* concrete: a pointer that depends on a symbolic kind makes every later disk index symbolic */
		 HMAP[j].file = 0; HMAP[j].f = -1; HMAP[j].path[0] = 0; }
	*handlemax = ND;
	return HMAP;
}
/* info_set() of elem.h grows the info array first: here it is preallocated for the one stripe (a body-less callee is rejected by the driver) */
void tommy_arrayblkof_grow(tommy_arrayblkof* array, tommy_size_t size) { VF_ASSERT(size <= array->count, "harness: info array preallocated"); }
void* memcpy(void* dst, const void* src, size_t n)
{
	if (n == 8) { *(uint64_t*)dst = *(const uint64_t*)src; }
	else if (n == 16) { ((uint64_t*)dst)[0] = ((const uint64_t*)src)[0]; ((uint64_t*)dst)[1] = ((const uint64_t*)src)[1]; }
	else if (n == 4) { *(uint32_t*)dst = *(const uint32_t*)src; }
	else VF_ASSERT(n == 0, "harness: memcpy sizes 0/4/8/16 on this data plane");
	return dst;
}
void* memset(void* dst, int c, size_t n)
{
	uint64_t w = (uint64_t)(unsigned char)c * 0x0101010101010101ULL;
	if (n == 8) { *(uint64_t*)dst = w; }
	else if (n == 16) { ((uint64_t*)dst)[0] = w; ((uint64_t*)dst)[1] = w; }
	else VF_ASSERT(n == 0, "harness: memset sizes 0/8/16 on this data plane");
	return dst;
}
int memcmp(const void* a, const void* b, size_t n)
{
	if (n == 8) return *(const uint64_t*)a != *(const uint64_t*)b;
	if (n == 16) return ((const uint64_t*)a)[0] != ((const uint64_t*)b)[0] || ((const uint64_t*)a)[1] != ((const uint64_t*)b)[1];
	VF_ASSERT(n == 0, "harness: memcmp sizes 0/8/16 on this data plane (callers only test == 0)");
	return 0;
}
unsigned memdiff(const unsigned char* a, const unsigned char* b, size_t n) { (void)a; (void)b; (void)n; return 1; }
static unsigned char pool[128] __attribute__((aligned(16))); static size_t pool_used;
static void* pool_get(size_t size) { void* p = &pool[pool_used]; pool_used += (size + 15) & ~(size_t)15; VF_ASSERT(pool_used <= sizeof(pool), "harness: pool large enough"); return p; }
void free(void* p) { (void)p; }
struct rehash_compat { unsigned char hash[HASH_MAX]; struct snapraid_block* block; };        /* = struct snapraid_rehash of scrub.c */
static struct rehash_compat rehash_store[ND];
void* malloc_nofail(size_t size) { return pool_get(size); }
void* calloc_nofail(size_t n, size_t size) { void* p = pool_get(n * size); VF_ASSERT(n * size <= 8, "harness: bit vector of one word"); *(uint64_t*)p = 0; return p; }
void* malloc_nofail_align(size_t size, void** freeptr) { VF_ASSERT(size == sizeof(rehash_store), "harness: rehandle[] layout"); *freeptr = rehash_store; return rehash_store; }
#ifndef VF_NATIVE
static int vf_errno; int* __errno_location(void) { return &vf_errno; }      /* without a body CBMC returns an unconstrained pointer: every use of errno then ranges over all objects */
#endif
void pathcpy(char* dst, size_t size, const char* src) { (void)size; (void)src; dst[0] = 0; }
void os_abort(void) { VF_ASSERT(0, "os_abort reached (internal inconsistency)"); VF_STOP(); }
const char* esc_tag(const char* str, char* buffer) { (void)buffer; return str; }
const char* lev_config_name(unsigned l) { (void)l; return ""; }
const char* lev_name(unsigned l) { (void)l; return ""; }
char* strerror(int e) { (void)e; return ""; }
void state_usage_waste(struct snapraid_state* s) { (void)s; } void state_usage_misc(struct snapraid_state* s) { (void)s; } void state_usage_sched(struct snapraid_state* s) { (void)s; }
void state_usage_raid(struct snapraid_state* s) { (void)s; } void state_usage_hash(struct snapraid_state* s) { (void)s; } void state_usage_print(struct snapraid_state* s) { (void)s; }
void state_usage_file(struct snapraid_state* s, struct snapraid_disk* d, struct snapraid_file* f) { (void)s; (void)d; (void)f; }
void state_usage_disk(struct snapraid_state* s, struct snapraid_handle* h, unsigned* w, unsigned m) { (void)s; (void)h; (void)w; (void)m; }
void state_usage_parity(struct snapraid_state* s, unsigned* w, unsigned m) { (void)s; (void)w; (void)m; }
int state_progress_begin(struct snapraid_state* s, block_off_t a, block_off_t b, block_off_t c) { (void)s; (void)a; (void)b; (void)c; return 1; }
void state_progress_end(struct snapraid_state* s, block_off_t a, block_off_t b, data_off_t c) { (void)s; (void)a; (void)b; (void)c; }
int state_progress(struct snapraid_state* s, struct snapraid_io* io, block_off_t p, block_off_t a, block_off_t b, data_off_t c) { (void)s; (void)io; (void)p; (void)a; (void)b; (void)c; return stop_now; }
void state_progress_stop(struct snapraid_state* s) { (void)s; } void state_progress_restart(struct snapraid_state* s) { (void)s; }
void state_write(struct snapraid_state* s) { (void)s; ++state_written; }

int handle_close(struct snapraid_handle* h) { h->file = 0; h->f = -1; return 0; }
int handle_open(struct snapraid_handle* h, struct snapraid_file* file, int mode, fptr* out, fptr* out_missing)
{
	unsigned j = disk_index(h->disk); (void)mode; (void)out; (void)out_missing;
	if (open_err[j]) { errno = open_err[j] == 1 ? ENOENT : (open_err[j] == 2 ? EACCES : EIO); return -1; }
	h->file = file; h->f = 3;
	h->st.st_size = file->size + (attr_changed[j] == 1); h->st.st_mtime = file->mtime_sec + (attr_changed[j] == 2);
	h->st.st_mtim.tv_nsec = file->mtime_nsec + (attr_changed[j] == 3); h->st.st_ino = file->inode;
	return 0;
}
int handle_read(struct snapraid_handle* h, block_off_t file_pos, unsigned char* buf, unsigned size, fptr* out, fptr* out_missing)
{
	unsigned j = disk_index(h->disk); (void)file_pos; (void)out; (void)out_missing;
	VF_ASSERT(size == BS, "block size");
	if (read_err[j]) { errno = read_err[j] == 1 ? EIO : EINVAL; return -1; }
	memcpy(buf, &tok_disk[j], 8);
	return BS;
}
int handle_write(struct snapraid_handle* h, block_off_t p, unsigned char* b, unsigned s) { (void)h; (void)p; (void)b; (void)s; wrote = 1; VF_ASSERT(0, "C12/C15: scrub never writes a data file"); return -1; }
int handle_create(struct snapraid_handle* h, struct snapraid_file* f, int m) { (void)h; (void)f; (void)m; wrote = 1; VF_ASSERT(0, "C12/C15: scrub never creates a data file"); return -1; }
int handle_truncate(struct snapraid_handle* h, struct snapraid_file* f) { (void)h; (void)f; wrote = 1; VF_ASSERT(0, "C12/C15: scrub never truncates a data file"); return -1; }
static uint64_t rd_id[NL]; static int rd_valid[NL];
int parity_read(struct snapraid_parity_handle* h, block_off_t pos, unsigned char* buf, unsigned size, fptr* out)
{
	unsigned l = h->level; (void)pos; (void)out; VF_ASSERT(size == BS && l < LEVEL, "parity_read");
	if (perr[l]) { errno = perr[l] == 1 ? EIO : EINVAL; return -1; }
	rd_id[l] = vf_in_u64(); rd_valid[l] = 1; memcpy(buf, &rd_id[l], 8);
	return BS;
}
int parity_write(struct snapraid_parity_handle* h, block_off_t pos, unsigned char* buf, unsigned size) { (void)h; (void)pos; (void)buf; (void)size; wrote = 1; VF_ASSERT(0, "C12/C15: scrub never writes parity"); return -1; }
int parity_sync(struct snapraid_parity_handle* h) { (void)h; return 0; }
void raid_zero(void* zero) { (void)zero; }
static int gen_called;
void raid_gen(int nd, int np, size_t size, void** v)
{
	int l;
	VF_ASSERT(nd == ND && np == LEVEL && size == BS, "raid_gen geometry");
	for (l = 0; l < np; ++l) {
		uint64_t t = vf_in_u64();
		if (rd_valid[l]) { if (par_ok[l]) t = rd_id[l]; else VF_ASSUME(t != rd_id[l]); }
		memcpy(v[nd + l], &t, 8);
	}
	gen_called = 1;
}

/* io contract stubs: single-thread semantics */
static struct snapraid_worker RW[ND], PW[NL];
static struct snapraid_task TKR[ND], TKP[NL];
static unsigned char dbuf[ND + 2 * NL][BS] __attribute__((aligned(8))); static void* bufvec[ND + 2 * NL];
static bit_vect_t* enabled; static int served, rd_next, pr_next; static unsigned order[ND];
void io_init(struct snapraid_io* io, struct snapraid_state* state, unsigned io_cache, unsigned buffer_max,
	void (*data_reader)(struct snapraid_worker*, struct snapraid_task*), struct snapraid_handle* handle_map, unsigned handle_max,
	void (*parity_reader)(struct snapraid_worker*, struct snapraid_task*), void (*parity_writer)(struct snapraid_worker*, struct snapraid_task*),
	struct snapraid_parity_handle* parity_handle_map, unsigned parity_handle_max)
{
	unsigned i; (void)io_cache;
	VF_ASSERT(handle_max == ND && parity_handle_max == LEVEL && buffer_max == ND + 2 * LEVEL, "io_init geometry");
	VF_ASSERT(parity_writer == 0, "C12/C15: scrub installs no parity writer");
	io->state = state; io->data_reader = data_reader; io->parity_reader = parity_reader;
	for (i = 0; i < ND; ++i) { RW[i].io = io; RW[i].handle = &handle_map[i]; RW[i].parity_handle = 0; RW[i].func = data_reader; }
	for (i = 0; i < LEVEL; ++i) { PW[i].io = io; PW[i].handle = 0; PW[i].parity_handle = &parity_handle_map[i]; PW[i].func = parity_reader; }
	for (i = 0; i < ND + 2 * NL; ++i) bufvec[i] = dbuf[i];
}
void io_done(struct snapraid_io* io) { (void)io; }
static void st_start(struct snapraid_io* io, block_off_t a, block_off_t b, bit_vect_t* en) { (void)io; VF_ASSERT(a == 0 && b == 1, "one stripe"); enabled = en; served = 0; }
static void st_stop(struct snapraid_io* io) { (void)io; }
static int rn_calls;
static block_off_t st_read_next(struct snapraid_io* io, void*** buffer)
{
	(void)io; *buffer = bufvec; rd_next = 0; pr_next = 0;
	if (rn_calls++ > 0) return 1;                       /* concrete call counter: with a symbolic 'served' test the stripe loop is unrolled to the bound */
	if (!bit_vect_test(enabled, 0)) return 1;
	served = 1;
	return 0;
}
static struct snapraid_task* st_data_read(struct snapraid_io* io, unsigned* diskcur, unsigned* wm, unsigned* wmac)
{
	unsigned j; struct snapraid_task* t; (void)io;
	VF_ASSERT(rd_next < ND, "each disk is read once per stripe");
	j = order[rd_next++];
	t = &TKR[j];
	t->state = TASK_STATE_READY; t->path[0] = 0; t->disk = HMAP[j].disk; t->buffer = dbuf[j]; t->position = 0; t->block = 0; t->file = 0; t->file_pos = 0; t->read_size = 0; t->is_timestamp_different = 0;
	RW[j].func(&RW[j], t);          /* the real scrub_data_reader */
	*diskcur = j; wm[0] = j; *wmac = 1;
	return t;
}
static struct snapraid_task* st_parity_read(struct snapraid_io* io, unsigned* levcur, unsigned* wm, unsigned* wmac)
{
	unsigned l; struct snapraid_task* t; (void)io;
	VF_ASSERT(pr_next < LEVEL, "each level read once per stripe");
	l = pr_next++;
	t = &TKP[l];
	t->state = TASK_STATE_READY; t->path[0] = 0; t->disk = 0; t->buffer = dbuf[ND + LEVEL + l]; t->position = 0; t->block = 0; t->file = 0; t->file_pos = 0; t->read_size = 0; t->is_timestamp_different = 0;
	PW[l].func(&PW[l], t);          /* the real scrub_parity_reader */
	*levcur = l; wm[0] = l; *wmac = 1;
	return t;
}
static void st_refresh(struct snapraid_io* io) { (void)io; }
void memhash(unsigned kind, const unsigned char* seed, void* digest, const void* src, size_t size)
{
	unsigned j, slot = UFS_N; uint64_t w, d[2]; (void)seed;
	VF_ASSERT(size == BS, "harness: whole blocks are hashed");
	for (j = 0; j < ND; ++j) if (src == (const void*)dbuf[j]) slot = ND + 2 * j + (kind == S.prevhash ? 1 : 0);
	memcpy(&w, src, 8);
	ufs_digest(slot, kind, w, d);
	memcpy(digest, d, 16);
}

static uint64_t drec[ND][2], dpost[ND][2];
static void set_hash_rec(unsigned j) { memcpy(blk(j)->hash, drec[j], 16); }
static int hash_is_post(unsigned j) { uint64_t h[2]; memcpy(h, blk(j)->hash, 16); return dpost[j][0] == h[0] && dpost[j][1] == h[1]; }

void c15_scrub_step(void)
{
	unsigned j, l; int ret; snapraid_info info0, info1; time_t now; struct snapraid_plan plan;
	int fatal = 0, exp_err = 0, exp_io = 0, exp_silent = 0, unsynced = 0, any_fault_before_parity = 0;
	BLOCK_HASH_SIZE = 16;
	S.level = LEVEL; S.block_size = BS; S.hash = HASH_MURMUR3; S.prevhash = HASH_SPOOKY2; S.autosave = 0;
	S.opt.io_error_limit = 100; S.opt.expect_recoverable = 0;
	info0 = vf_in_u32();
#ifndef REHASH
	info0 &= ~(snapraid_info)2;
#endif
	VF_ASSUME(info0 != 0);              /* a stripe in use (0 = never used) */
	infos[0] = info0; rehash_on = info_get_rehash(info0) != 0;
	S.infoarr.element_size = sizeof(snapraid_info); S.infoarr.count = 1; seg[0] = infos; S.infoarr.block.bucket[0] = seg; S.infoarr.block.count = 1;
	now = (time_t)vf_in_u32();
	for (l = 0; l < LEVEL; ++l) { PH[l].level = l; PH[l].split_mac = 1; perr[l] = vf_in_u8() % 3; par_ok[l] = vf_in_u8() & 1;
#ifndef FAULTS
		perr[l] = 0;
#endif
	}
	for (j = 0; j < ND; ++j) {
		kind[j] = HOLE(j) ? K_HOLE : 1 + vf_in_u8() % 5;
#ifdef KINDS
		{ static const unsigned char kk[] = { KINDS }; kind[j] = kk[j]; }
#endif
		tok_rec[j] = vf_in_u64(); tok_disk[j] = vf_in_u64();
		attr_changed[j] = vf_in_u8() % 4; open_err[j] = vf_in_u8() % 4; read_err[j] = vf_in_u8() % 3;
#ifndef FAULTS
		open_err[j] = 0; read_err[j] = 0;
#endif
		FL[j].size = BS; FL[j].blockmax = 1; FL[j].mtime_sec = 100; FL[j].mtime_nsec = 5; FL[j].inode = 7; FL[j].sub = "f"; FL[j].flag = 0;
		FL[j].blockvec = (struct snapraid_block*)BV[j];
		DK[j].name[0] = 'd'; DK[j].name[1] = 0; DK[j].dir[0] = 0;
		order[j] = j;
		ufs_digest(j, (rehash_on && (kind[j] == K_BLK || kind[j] == K_REP)) ? S.prevhash : S.hash, tok_rec[j], drec[j]);      /* the recorded hash (with a migration pending: still of the previous kind) */
		switch (kind[j]) {
		case K_HOLE: case K_EMPTY: break;
		case K_BLK: block_state_set(blk(j), BLOCK_STATE_BLK); set_hash_rec(j); break;
		case K_REP: block_state_set(blk(j), BLOCK_STATE_REP); set_hash_rec(j); break;
		case K_CHG: { unsigned hk = vf_in_u8() % 3; block_state_set(blk(j), BLOCK_STATE_CHG);
			if (hk == 0) set_hash_rec(j); else if (hk == 1) hash_zero_set(blk(j)->hash); else hash_invalid_set(blk(j)->hash); break; }
		default: { unsigned hk = vf_in_u8() & 1; block_state_set(blk(j), BLOCK_STATE_DELETED);
			if (hk == 0) set_hash_rec(j); else hash_invalid_set(blk(j)->hash); break; }
		}
		for (l = 0; l < 1 + HASH_MAX; ++l) BV0[j][l] = BV[j][l];
	}
#if ND == 2 && defined(REORDER)
	order[0] = 1; order[1] = 0;      /* C13: readers may finish in any order - enumerated by the driver (a symbolic order makes every disk index symbolic) */
#endif
	io_start = st_start; io_stop = st_stop; io_read_next = st_read_next; io_data_read = st_data_read; io_parity_read = st_parity_read; io_refresh = st_refresh;
	stop_now = vf_in_u8() & 1;
	plan.state = &S; plan.plan = SCRUB_FULL; plan.timelimit = 0; plan.lastlimit = 0; plan.countlast = 0;

	/* ---- reference: what the documentation says this stripe is ---- */
	for (j = 0; j < ND; ++j) if (kind[j] == K_CHG || kind[j] == K_REP || kind[j] == K_DEL) unsynced = 1;      /* a pending block: parity differences are expected */
	for (j = 0; j < ND; ++j) if (kind[j] == K_BLK || kind[j] == K_CHG || kind[j] == K_REP) {
		int funs = kind[j] != K_BLK;
		if (open_err[j] == 3) { fatal = 1; }                                 /* EIO on open: the command stops */
		else if (open_err[j]) { exp_err = 1; }
		else {
			if (attr_changed[j]) { funs = 1; unsynced = 1; }
			if (read_err[j] == 1) exp_io = 1;
			else if (read_err[j]) exp_err = 1;
			else if ((kind[j] == K_BLK || kind[j] == K_REP) && tok_disk[j] != tok_rec[j]) { if (funs) exp_err = 1; else exp_silent = 1; }
		}
	}
	any_fault_before_parity = exp_err || exp_io || exp_silent;
	for (l = 0; l < LEVEL; ++l) { if (perr[l] == 1) exp_io = 1; else if (perr[l]) exp_err = 1; }
	if (!exp_err && !exp_io && !exp_silent) for (l = 0; l < LEVEL; ++l) if (!par_ok[l]) { if (unsynced) exp_err = 1; else exp_silent = 1; }
	(void)any_fault_before_parity;

	ret = __CPROVER_file_local_scrub_c_state_scrub_process(&S, PH, 0, 1, &plan, now);
	info1 = infos[0];

	VF_ASSERT(served, "C15: a stripe in use is verified by the full plan");
	VF_ASSERT(!wrote && !state_written, "C12/C15: scrub writes neither data nor parity (and saves the content only through the caller)");
	if (fatal) {
		VF_ASSERT(ret == -1, "C08: a fatal input/output error ends the command with a failing status");
	} else {
		/* marks */
		if (exp_silent || exp_io) {
			VF_ASSERT(info_get_bad(info1), "C04/C08: a stripe with a silent error or an input/output error is marked bad");
			VF_ASSERT(info1 == info_set_bad(info0), "C15: marking bad keeps the rest of the info word (check time is not refreshed)");
#ifdef NEGCTL
			VF_ASSERT(ret == 0, "NEGCTL (wrong on purpose): a silent error goes unreported");
#else
			VF_ASSERT(ret == -1, "C04/C08: and the command ends with a failing status");
#endif
		} else if (exp_err) {
			VF_ASSERT(info1 == info0, "C15: differences caused by files changed since the last sync (or plain file errors) neither mark the stripe bad nor refresh it");
			VF_ASSERT(ret == -1, "C08: a file error ends the command with a failing status");
		} else {
			VF_ASSERT(info1 == info_make(now, 0, 0, 0), "C15: a stripe verified correct gets the check time refreshed and its marks cleared");
			VF_ASSERT(ret == 0, "C04: on a stripe without damage no error is reported");
		}
		/* the converse directions, stated on the outcome */
		if (info_get_bad(info1) && !info_get_bad(info0)) VF_ASSERT(exp_silent || exp_io, "C15: a stripe is marked bad only for a silent or input/output error");
		if (info1 != info0 && !(info_get_bad(info1) && info1 == info_set_bad(info0))) VF_ASSERT(!exp_err && !exp_io && !exp_silent, "C15: the check time is refreshed and marks are cleared only for a stripe verified correct");
	}
	for (j = 0; j < ND; ++j) ufs_digest(3 * ND + j, S.hash, tok_disk[j], dpost[j]);
	/* hashes: only a completed hash migration of a verified stripe replaces them, with the hash of the data read */
	for (j = 0; j < ND; ++j) if (has_block(j)) {
		int changed = 0; for (l = 0; l < 1 + HASH_MAX; ++l) changed |= BV0[j][l] != BV[j][l];
		if (changed) {
			VF_ASSERT(rehash_on && !fatal && !exp_err && !exp_io && !exp_silent, "C15/C16: block records change only when a pending hash migration completes on a verified stripe");
			VF_ASSERT(block_state_get(blk(j)) == BV0[j][0], "C15: scrub never changes a block state");
			VF_ASSERT(hash_is_post(j), "C16: the migrated hash is the new hash of the data just verified");
		} else if (rehash_on && !fatal && !exp_err && !exp_io && !exp_silent && (kind[j] == K_BLK || kind[j] == K_REP)) {
			VF_ASSERT(hash_is_post(j), "C16: a completed migration leaves no block with the previous hash");
		}
	}
	VF_WITNESS();
}
