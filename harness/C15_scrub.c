/*
 * C15 - scrub plan: the real state_scrub() (plan -> count limit / time limit / tie count, incl. md()) and the real
 * block_is_enabled() of cmdline/scrub.c, run together exactly as the command does (first pass over all positions), with
 * state_scrub_process replaced by a recorder of the selected set.  Info words, clock, plan and age argument are symbolic.
 */
#include "portable.h"
#include "support.h"
#include "elem.h"
#include "state.h"
#include "parity.h"
#include "handle.h"
#include "io.h"
#include "vf.h"

#ifndef NBLK
#define NBLK 5
#endif

struct snapraid_plan {   /* as in scrub.c (file-local type) */
	struct snapraid_state* state;
	int plan;
	time_t timelimit;
	block_off_t lastlimit;
	block_off_t countlast;
};
int __CPROVER_file_local_scrub_c_block_is_enabled(struct snapraid_plan* plan, block_off_t i);

static struct snapraid_state S;
static snapraid_info infos[NBLK + 1];
static void* seg[4];
static block_off_t blockmax;
static time_t now_;
static int sel[NBLK], ran, exited;

block_off_t parity_allocated_size(struct snapraid_state* state) { (void)state; return blockmax; }
time_t time(time_t* t) { if (t) *t = now_; return now_; }
void* malloc_nofail(size_t size) { void* p = malloc(size); VF_ASSUME(p != 0); return p; }
#ifndef VF_NATIVE
void exit(int c) { (void)c; exited = 1; VF_STOP(); }
#endif
/* qsort: insertion sort through the real comparison callback (at most NBLK elements of size sizeof(time_t)) */
void qsort(void* base, size_t n, size_t size, int (*cmp)(const void*, const void*))
{
	time_t* a = base; size_t i, j;
	VF_ASSERT(size == sizeof(time_t) && n <= NBLK, "harness: qsort stub used for the time map only");
	for (i = 1; i < n; ++i) for (j = i; j > 0 && cmp(&a[j - 1], &a[j]) > 0; --j) { time_t t = a[j]; a[j] = a[j - 1]; a[j - 1] = t; }
}
/* recorder in place of the scrub loop: the selection pass of the real state_scrub_process (scrub.c "first count the number of blocks") */
int __CPROVER_file_local_scrub_c_state_scrub_process(struct snapraid_state* state, struct snapraid_parity_handle* parity_handle, block_off_t blockstart, block_off_t bmax, struct snapraid_plan* plan, time_t now)
{
	block_off_t i;
	(void)state; (void)parity_handle; (void)now;
	VF_ASSERT(blockstart == 0 && bmax == blockmax, "whole array is offered to the plan");
	plan->countlast = 0;
	for (i = blockstart; i < bmax; ++i) sel[i] = __CPROVER_file_local_scrub_c_block_is_enabled(plan, i) != 0;
	ran = 1;
	return 0;
}

void c15_plan(void)
{
	unsigned i, j, nused = 0, nsel_nonbad = 0; int plan, olderthan; uint64_t quota; time_t recent;
	blockmax = NBLK;     /* enumerated by the driver: a symbolic allocation size for the time map exhausts memory */
	now_ = vf_in_u32(); VF_ASSUME(now_ >= 400000000);        /* a clock after 1982: now - age does not go negative */
	for (i = 0; i < NBLK; ++i) {
		infos[i] = vf_in_u32();
		if (i >= blockmax) infos[i] = 0;
		if (infos[i] != 0) { ++nused; VF_ASSUME(info_get_time(infos[i]) <= now_); }   /* stripes were checked in the past */
	}
	S.infoarr.element_size = sizeof(snapraid_info); S.infoarr.count = blockmax;
	seg[0] = infos; S.infoarr.block.bucket[0] = seg; S.infoarr.block.count = 1;
	S.level = 0; S.opt.force_scrub_even = 0; S.opt.force_scrub_at = 0;
	plan = (int)(vf_in_u8() % 105) - 4;      /* SCRUB_FULL(-4) SCRUB_NEW(-3) SCRUB_BAD(-2) SCRUB_AUTO(-1: default 1/12) 0..100 percent */
	olderthan = -1;
	if (plan >= -1) { olderthan = (int)(vf_in_u16() % 3652) - 1; }
	ran = 0; exited = 0;
	int ret = state_scrub(&S, plan, olderthan);
	VF_ASSERT(nused > 0, "an empty array is refused");
	VF_ASSERT(ran && ret == 0, "the plan is handed to the scrub loop");
	quota = plan >= 0 ? ((uint64_t)blockmax * (unsigned)plan + 99) / 100 : ((uint64_t)blockmax + 11) / 12;
	recent = now_ - (time_t)(olderthan >= 0 ? olderthan : 10) * 24 * 3600;
	for (i = 0; i < blockmax; ++i) {
		snapraid_info in = infos[i];
		if (in == 0) { VF_ASSERT(!sel[i], "unused positions are never scrubbed"); continue; }
		if (info_get_bad(in)) { VF_ASSERT(sel[i], "stripes marked bad are scrubbed in every plan"); continue; }
		if (plan == SCRUB_FULL) VF_ASSERT(sel[i], "full: every used stripe");
		if (plan == SCRUB_BAD) VF_ASSERT(!sel[i], "bad: nothing but bad stripes");
		if (plan == SCRUB_NEW) VF_ASSERT(sel[i] == (info_get_justsynced(in) != 0), "new: exactly the never-scrubbed stripes");
		if (plan >= -1 && sel[i]) {
			++nsel_nonbad;
			VF_ASSERT(info_get_time(in) <= recent, "percentage plan: nothing younger than the age limit");
			for (j = 0; j < blockmax; ++j)
				if (infos[j] != 0 && !info_get_bad(infos[j]) && !sel[j])
					VF_ASSERT(info_get_time(infos[j]) >= info_get_time(in), "percentage plan: oldest stripes first");
		}
	}
	if (plan >= -1) {
		VF_ASSERT(nsel_nonbad <= quota, "percentage plan: no more than that share of the array (beyond the bad stripes)");
		/* progress: when the quota is not zero and the oldest stripe is old enough, one of the oldest stripes is scrubbed */
		{
			time_t oldest = 0; int any = 0, hit = 0;
			for (i = 0; i < blockmax; ++i) if (infos[i] != 0 && (!any || info_get_time(infos[i]) < oldest)) { oldest = info_get_time(infos[i]); any = 1; }
			for (i = 0; i < blockmax; ++i) if (infos[i] != 0 && sel[i] && info_get_time(infos[i]) == oldest) hit = 1;
			if (any && quota > 0 && oldest <= recent) VF_ASSERT(hit, "repeated scrubs make progress: an oldest stripe is always taken");
		}
	}
	VF_WITNESS();
}
#ifdef NEGCTL
void c15_negctl(void)
{
	unsigned i, n = 0;
	blockmax = NBLK; now_ = 1000000000;
	for (i = 0; i < NBLK; ++i) { infos[i] = vf_in_u32(); VF_ASSUME(infos[i] != 0 && info_get_time(infos[i]) <= now_ - 20 * 24 * 3600 && !info_get_bad(infos[i])); }
	S.infoarr.element_size = sizeof(snapraid_info); S.infoarr.count = blockmax;
	seg[0] = infos; S.infoarr.block.bucket[0] = seg; S.infoarr.block.count = 1;
	S.level = 0;
	state_scrub(&S, 30, -1);
	for (i = 0; i < NBLK; ++i) n += sel[i];
	VF_ASSERT(n <= (NBLK * 30) / 100, "WRONG ORACLE: quota rounded down");
}
#endif
