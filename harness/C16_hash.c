/* C16 - block hashes are bit-for-bit stable: the current MurmurHash3_x86_128 / SpookyHash128 / MetroHash128 / memhash
 * (cmdline/util.c, which #includes murmur3.c, spooky2.c, metro.c) against a frozen copy of the pinned tree (ref/ref_hash.c) */
#include "portable.h"
#include "support.h"
#include "util.h"
#include "vf.h"

#ifndef L
#define L 48
#endif
#ifndef KIND
#define KIND HASH_MURMUR3
#endif

void ref_MurmurHash3_x86_128(const void* data, size_t size, const uint8_t* seed, void* digest);
void ref_SpookyHash128(const void* data, size_t size, const uint8_t* seed, uint8_t* digest);
void ref_MetroHash128(const void* data, size_t size, const uint8_t* seed, uint8_t* digest);

static unsigned char msg[L + 16] __attribute__((aligned(16)));
static unsigned char seed[16] __attribute__((aligned(16)));

void c16_hash(void)
{
	unsigned char cur[16], ref[16];
	unsigned i, n;
#ifdef LEN
	n = LEN;                      /* length enumerated by the driver */
#else
	n = vf_in_u8();
	VF_ASSUME(n <= L);
#endif
	for (i = 0; i < L; i += 8) { struct vf_blk8 b = vf_in_blk8(); unsigned k; for (k = 0; k < 8 && i + k < L; ++k) msg[i + k] = b.b[k]; }
	{ struct vf_blk16 s = vf_in_blk16(); for (i = 0; i < 16; ++i) seed[i] = s.b[i]; }
	for (i = 0; i < 16; ++i) { cur[i] = 0; ref[i] = 0; }
	/* the length is symbolic, but each call below sees a concrete size (one copy of the code per length):
	 * keeps memcpy/memset with a symbolic byte count out of the formula */
	{
		unsigned k;
		for (k = 0; k <= L; ++k) {
			if (n == k) {
				memhash(KIND, seed, cur, msg, k);
				if (KIND == HASH_MURMUR3) ref_MurmurHash3_x86_128(msg, k, seed, ref);
				else if (KIND == HASH_SPOOKY2) ref_SpookyHash128(msg, k, seed, ref);
				else ref_MetroHash128(msg, k, seed, ref);
			}
		}
	}
#ifdef NEGCTL
	ref[5] ^= (n == 17 && msg[16] == 0x99);   /* deliberately wrong reference */
#endif
	for (i = 0; i < 16; ++i) VF_ASSERT(cur[i] == ref[i], "digest equals the reference version's digest bit for bit");
	VF_WITNESS();
}
