/*
 * C17 - parity split: real parity_split_find / parity_write / parity_read / parity_size /
 * parity_chsize (+ static parity_handle_chsize/fill/grow/shrink, parity_split_is_fixed, hbit_u64)
 * of cmdline/parity.c over an abstract file system (one file per split: size + capacity).
 */
#include "portable.h"
#include "support.h"
#include "elem.h"
#include "state.h"
#include "parity.h"
#include "vf.h"

#ifndef NS
#define NS 4           /* number of splits (bound) */
#endif
#ifndef MAXBLK
#define MAXBLK 64      /* max blocks per split / requested (bound) */
#endif

struct snapraid_split_handle* parity_split_find(struct snapraid_parity_handle* handle, data_off_t* offset);
uint64_t hbit_u64(uint64_t v);

/* ---------------- abstract file system: fd == split index ---------------- */
static data_off_t fs_size_[SPLIT_MAX];   /* current file size */
static data_off_t fs_cap[SPLIT_MAX];     /* space available: a grow succeeds iff new size <= cap (not block aligned) */
static int fs_fallocate_unsupported;     /* fallocate answers EOPNOTSUPP -> ftruncate fallback */
static int rec_fd, rec_cnt; static data_off_t rec_off; static size_t rec_len;

int fallocate(int fd, int mode, off_t offset, off_t len)
{
	(void)mode;
	if (fs_fallocate_unsupported) { errno = EOPNOTSUPP; return -1; }
	if (offset + len > fs_cap[fd]) { errno = ENOSPC; return -1; }
	if (offset + len > fs_size_[fd]) fs_size_[fd] = offset + len;
	return 0;
}
int ftruncate(int fd, off_t length)
{
	if (length > fs_size_[fd] && length > fs_cap[fd]) { errno = ENOSPC; return -1; }
	fs_size_[fd] = length;
	return 0;
}
int fstat(int fd, struct stat* st) { st->st_size = fs_size_[fd]; return 0; }
ssize_t pwrite(int fd, const void* buf, size_t count, off_t offset) { (void)buf; rec_fd = fd; rec_off = offset; rec_len = count; ++rec_cnt; return (ssize_t)count; }
ssize_t pread(int fd, void* buf, size_t count, off_t offset) { (void)buf; rec_fd = fd; rec_off = offset; rec_len = count; ++rec_cnt; return (ssize_t)count; }
int advise_write(struct advise_struct* advise, int f, data_off_t offset, data_off_t size) { (void)advise; (void)f; (void)offset; (void)size; return 0; }
int advise_read(struct advise_struct* advise, int f, data_off_t offset, data_off_t size) { (void)advise; (void)f; (void)offset; (void)size; return 0; }
void bw_limit(struct snapraid_bw* bw, uint64_t bytes) { (void)bw; (void)bytes; }
char* strerror(int e) { (void)e; return ""; }
static int aborted;
void os_abort(void) { aborted = 1; VF_ASSERT(0, "os_abort reached (internal inconsistency)"); VF_STOP(); }
static void outf(const char* format, ...) { (void)format; }

static struct snapraid_parity_handle H;
static struct snapraid_parity P;
static uint32_t bs;

#ifndef BS
#define BS 64          /* block size: enumerated by the driver (a symbolic one makes every pos*block_size a 64x64 multiplier) */
#endif
static uint32_t pick_block_size(void) { return BS; }

/* arbitrary handle: split sizes block multiples, fd == index, file size == recorded size (state after open/chsize) */
static void any_handle(int sizes_match_files)
{
	unsigned s;
	uint8_t mac = vf_in_u8();
	VF_ASSUME(mac >= 1 && mac <= NS);
	H.split_mac = mac;
	H.level = 0;
	H.bw = 0;
	P.split_mac = mac;
	for (s = 0; s < NS; ++s) {
		uint32_t nb = vf_in_u32();
		VF_ASSUME(nb <= MAXBLK);
		H.split_map[s].size = (data_off_t)nb * bs;
		H.split_map[s].f = (int)s;
		H.split_map[s].limit_size = 0;
		H.split_map[s].path[0] = 0;
		if (sizes_match_files) {
			fs_size_[s] = H.split_map[s].size;
		} else {
			uint32_t fsz = vf_in_u32();
			VF_ASSUME(fsz <= (MAXBLK + 1) * bs);
			fs_size_[s] = fsz;
		}
		H.split_map[s].st.st_size = fs_size_[s];
		H.split_map[s].valid_size = fs_size_[s];
		P.split_map[s].size = H.split_map[s].size;
	}
}

/* reference: prefix sums */
static int ref_find(data_off_t off, unsigned* sp, data_off_t* lp)
{
	unsigned s; data_off_t base = 0;
	if (off < 0) return 0;
	for (s = 0; s < H.split_mac; ++s) {
		if (off >= base && off < base + H.split_map[s].size) { *sp = s; *lp = off - base; return 1; }
		base += H.split_map[s].size;
	}
	return 0;
}

/* ---- H1: offset -> (split, local offset) is the prefix-sum bijection; a block never straddles ---- */
void c17_find(void)
{
	bs = pick_block_size();
	any_handle(1);
	data_off_t total = 0; unsigned s;
	for (s = 0; s < H.split_mac; ++s) total += H.split_map[s].size;
	data_off_t got; parity_size(&H, &got);
	VF_ASSERT(got == total, "parity_size is the sum of the split sizes");

	data_off_t off = (data_off_t)vf_in_u64();
	VF_ASSUME(off >= -(data_off_t)bs && off <= total + 2 * (data_off_t)bs);
	data_off_t loc = off;
	struct snapraid_split_handle* sp = parity_split_find(&H, &loc);
	unsigned rs = 0; data_off_t rl = 0;
	int in = ref_find(off, &rs, &rl);
	VF_ASSERT((sp != 0) == (in != 0), "found iff 0 <= offset < total size");
	if (sp) {
		VF_ASSERT(sp == &H.split_map[rs], "split is the one whose prefix-sum interval holds the offset");
		VF_ASSERT(loc == rl, "local offset = offset - sum of previous splits");
		if ((off & (bs - 1)) == 0)
			VF_ASSERT(loc + bs <= sp->size, "a block never straddles two splits");
	}
	/* injectivity: a second offset mapping to the same (split, local) is the same offset */
	data_off_t off2 = (data_off_t)vf_in_u64();
	VF_ASSUME(off2 >= 0 && off2 < total);
	data_off_t loc2 = off2;
	struct snapraid_split_handle* sp2 = parity_split_find(&H, &loc2);
	if (sp && sp2 == sp && loc2 == loc)
		VF_ASSERT(off2 == off, "mapping is injective");
	VF_WITNESS();
}

/* ---- H2: parity_write(pos) and parity_read(pos) hit the same (file, offset); distinct positions never overlap ---- */
void c17_rw(void)
{
	static unsigned char buf[8];
	bs = pick_block_size();
	any_handle(1);
	data_off_t total = 0; unsigned s;
	for (s = 0; s < H.split_mac; ++s) total += H.split_map[s].size;
	block_off_t pos = vf_in_u32(), pos2 = vf_in_u32();
	VF_ASSUME(pos <= NS * MAXBLK + 2 && pos2 <= NS * MAXBLK + 2);
	rec_cnt = 0;
	int w = parity_write(&H, pos, buf, bs);
	int wfd = rec_fd; data_off_t woff = rec_off; int wc = rec_cnt;
	VF_ASSERT((w == 0) == ((data_off_t)(pos + 1) * bs <= total), "write succeeds iff the stripe lies inside the recorded parity size");
	if (w == 0) {
		unsigned rs = 0; data_off_t rl = 0;
		VF_ASSERT(wc == 1 && rec_len == bs, "exactly one pwrite of one block");
		VF_ASSERT(ref_find((data_off_t)pos * bs, &rs, &rl) && wfd == (int)rs && woff == rl, "pwrite goes to the prefix-sum (file, offset)");
		VF_ASSERT(woff + bs <= H.split_map[wfd].size, "written block inside its split");
		VF_ASSERT(H.split_map[wfd].valid_size >= woff + bs, "valid size covers what was written");
		rec_cnt = 0;
		int r = parity_read(&H, pos, buf, bs, outf);
		VF_ASSERT(r == (int)bs && rec_cnt == 1 && rec_fd == wfd && rec_off == woff, "read-back uses the same (file, offset)");
		rec_cnt = 0;
		int w2 = parity_write(&H, pos2, buf, bs);
		if (w2 == 0 && pos2 != pos)
			VF_ASSERT(rec_fd != wfd || rec_off + (data_off_t)bs <= woff || woff + (data_off_t)bs <= rec_off, "two positions never share bytes of a file");
	} else {
		VF_ASSERT(wc == 0, "no pwrite outside the range");
	}
	VF_WITNESS();
}

/* ---- H3: parity_chsize post-conditions from an arbitrary recorded layout ---- */
void c17_chsize(void)
{
	unsigned s;
	bs = pick_block_size();
	any_handle(1);
	data_off_t old[SPLIT_MAX], oldtotal = 0;
	for (s = 0; s < NS; ++s) {
		uint32_t cap = vf_in_u32();
		VF_ASSUME(cap <= (2 * MAXBLK + 1) * bs);
		fs_cap[s] = cap;
		old[s] = H.split_map[s].size;
	}
	for (s = 0; s < H.split_mac; ++s) oldtotal += old[s];
	fs_fallocate_unsupported = vf_in_u8() & 1;
	int skip_fallocate = vf_in_u8() & 1;
	uint32_t nb = vf_in_u32();
	VF_ASSUME(nb <= 2 * MAXBLK);
	data_off_t size = (data_off_t)nb * bs;
	int mod = 7;
	int ret = parity_chsize(&H, &P, &mod, size, bs, skip_fallocate, 0);
	data_off_t total = 0;
	for (s = 0; s < H.split_mac; ++s) {
		total += H.split_map[s].size;
		VF_ASSERT((H.split_map[s].size & (bs - 1)) == 0, "split sizes stay block aligned");
	}
	if (ret == 0) {
		int anymod = 0;
		VF_ASSERT(total == size, "success: split sizes sum to the requested size");
		for (s = 0; s < H.split_mac; ++s) {
			VF_ASSERT(fs_size_[s] == H.split_map[s].size, "no file is left larger or smaller than its recorded size");
			VF_ASSERT(P.split_map[s].size == H.split_map[s].size, "recorded sizes copied to the parity configuration");
			VF_ASSERT(H.split_map[s].valid_size <= fs_size_[s], "valid size never exceeds the file size");
			if (old[s] != H.split_map[s].size) anymod = 1;
		}
		VF_ASSERT(mod == anymod, "is_modified is exact");
		/* stability of the position map: every stripe that existed before and still exists keeps its (file, offset) */
		block_off_t pos = vf_in_u32();
		VF_ASSUME(pos <= 2 * NS * MAXBLK);
		data_off_t o = (data_off_t)pos * bs;
		if (o + bs <= oldtotal && o + bs <= size) {
			/* old mapping by prefix sums over old[] */
			unsigned os_ = 0; data_off_t ol = o; int found = 0;
			for (s = 0; s < H.split_mac; ++s) { if (ol < old[s]) { os_ = s; found = 1; break; } ol -= old[s]; }
			data_off_t nl = o;
			struct snapraid_split_handle* sp = parity_split_find(&H, &nl);
			VF_ASSERT(found && sp == &H.split_map[os_] && nl == ol, "a stripe present before and after the resize keeps its (file, offset)");
		}
	} else {
		for (s = 0; s < H.split_mac; ++s)
			VF_ASSERT(P.split_map[s].size == old[s], "failure: recorded configuration sizes unchanged");
	}
	VF_WITNESS();
}

/* ---- H4: growth of one split ends at the largest block multiple <= min(request, capacity) ---- */
int __CPROVER_file_local_parity_c_parity_handle_chsize(struct snapraid_split_handle* split, data_off_t size, uint32_t block_size, int skip_fallocate, int skip_space_holder);
void c17_fill(void)
{
	bs = pick_block_size();
	any_handle(0);
	uint32_t cap = vf_in_u32();
	VF_ASSUME(cap <= (2 * MAXBLK + 1) * bs);
	fs_cap[0] = cap;
	data_off_t before = fs_size_[0];
	VF_ASSUME(before <= cap); /* a file cannot be larger than the space it occupies */
	fs_fallocate_unsupported = vf_in_u8() & 1;
	uint32_t nb = vf_in_u32();
	VF_ASSUME(nb <= 2 * MAXBLK);
	data_off_t size = (data_off_t)nb * bs;
	int ret = __CPROVER_file_local_parity_c_parity_handle_chsize(&H.split_map[0], size, bs, vf_in_u8() & 1, 0);
	VF_ASSERT(ret == 0, "resize of one split does not fail on the abstract file system");
	VF_ASSERT(H.split_map[0].st.st_size == fs_size_[0], "stat refreshed");
	if (size <= before) {
		VF_ASSERT(fs_size_[0] == size, "shrink (or no-op) lands exactly on the requested size");
	} else {
		data_off_t best = size <= (data_off_t)cap ? size : ((data_off_t)cap & ~((data_off_t)bs - 1));
		data_off_t base = before & ~((data_off_t)bs - 1);
		if (best < base) best = base;
		VF_ASSERT(fs_size_[0] == best, "growth ends at the largest block multiple <= min(request, capacity)");
	}
	VF_ASSERT(H.split_map[0].valid_size <= fs_size_[0], "valid size never exceeds the file size");
	VF_WITNESS();
}

/* ---- H5: two consecutive resizes from an empty parity (every intermediate layout reachable by construction) ---- */
void c17_history(void)
{
	unsigned s, step;
	bs = pick_block_size();
	uint8_t mac = vf_in_u8();
	VF_ASSUME(mac >= 1 && mac <= NS);
	H.split_mac = mac; P.split_mac = mac;
	for (s = 0; s < NS; ++s) {
		H.split_map[s].size = 0; H.split_map[s].f = (int)s; H.split_map[s].limit_size = 0;
		H.split_map[s].st.st_size = 0; H.split_map[s].valid_size = 0; fs_size_[s] = 0; P.split_map[s].size = 0;
	}
	data_off_t prev[SPLIT_MAX], prevtotal = 0;
	for (step = 0; step < 2; ++step) {
		for (s = 0; s < NS; ++s) {
			uint32_t cap = vf_in_u32();
			VF_ASSUME(cap <= (2 * MAXBLK + 1) * bs && (data_off_t)cap >= fs_size_[s]);
			fs_cap[s] = cap;
			prev[s] = H.split_map[s].size;
		}
		uint32_t nb = vf_in_u32();
		VF_ASSUME(nb <= 2 * MAXBLK);
		data_off_t size = (data_off_t)nb * bs;
		int ret = parity_chsize(&H, &P, 0, size, bs, 0, 0);
		VF_ASSUME(ret == 0); /* a failed resize stops the command */
		if (step == 1) {
			block_off_t pos = vf_in_u32();
			VF_ASSUME(pos <= 2 * NS * MAXBLK);
			data_off_t o = (data_off_t)pos * bs;
			if (o + bs <= prevtotal && o + bs <= size) {
				unsigned os_ = 0; data_off_t ol = o; int found = 0;
				for (s = 0; s < H.split_mac; ++s) { if (ol < prev[s]) { os_ = s; found = 1; break; } ol -= prev[s]; }
				data_off_t nl = o;
				struct snapraid_split_handle* sp = parity_split_find(&H, &nl);
				VF_ASSERT(found && sp == &H.split_map[os_] && nl == ol, "a stripe written after the first resize is found at the same (file, offset) after the second");
			}
		}
		prevtotal = size;
	}
	VF_WITNESS();
}

#ifdef NEGCTL
/* negative control: a deliberately wrong oracle (local offset off by one block in split >= 1) must be refuted */
void c17_negctl(void)
{
	bs = pick_block_size();
	any_handle(1);
	data_off_t off = (data_off_t)vf_in_u64();
	VF_ASSUME(off >= 0 && off < (data_off_t)NS * MAXBLK * bs);
	data_off_t loc = off;
	struct snapraid_split_handle* sp = parity_split_find(&H, &loc);
	VF_ASSERT(!(sp == &H.split_map[1]) || loc == off - H.split_map[0].size + bs, "WRONG ORACLE");
}
#endif
