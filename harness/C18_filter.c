/*
 * C18 - include/exclude rules: real filter_alloc_file, filter_alloc_disk, filter_apply, filter_recurse, filter_element,
 * filter_path / filter_subdir / filter_emptydir, filter_content of cmdline/elem.c.
 * fnmatch() is libc's on Linux: here an uninterpreted but *consistent* function of (pattern, string, flags); the reference
 * evaluator below (written from snapraid.txt "exclude/include") calls the same function, so what is decided is which
 * strings are matched against which patterns, in which order, and how the answers are combined.
 */
#include "portable.h"
#include "support.h"
#include "elem.h"
#include "vf.h"
#include <stdarg.h>

#ifndef PL
#define PL 4     /* pattern bytes (bound) */
#endif
#ifndef SL
#define SL 6     /* path bytes (bound) */
#endif
#ifndef NR
#define NR 2     /* rules (bound) */
#endif

/* ---------- uninterpreted, functionally consistent fnmatch ---------- */
#define UFN 16
static struct { const char* pat; int flags; uint64_t key; int len; int ans; } uf[UFN];
static unsigned ufn;
static uint64_t pack(const char* s, int* len)
{
	uint64_t k = 0; int i;
	for (i = 0; i < 8 && s[i]; ++i) k |= (uint64_t)(unsigned char)s[i] << (8 * i);
	*len = i;
	return k;
}
int fnmatch(const char* pattern, const char* string, int flags)
{
	int len; uint64_t k = pack(string, &len); unsigned i;
	for (i = 0; i < UFN; ++i)
		if (i < ufn && uf[i].pat == pattern && uf[i].flags == flags && uf[i].key == k && uf[i].len == len)
			return uf[i].ans;
	VF_ASSERT(ufn < UFN, "harness: uninterpreted-function table large enough");
	uf[ufn].pat = pattern; uf[ufn].flags = flags; uf[ufn].key = k; uf[ufn].len = len;
	uf[ufn].ans = (vf_in_u8() & 1) ? 0 : FNM_NOMATCH;
	return uf[ufn++].ans;
}
void* malloc_nofail(size_t size) { void* p = malloc(size); VF_ASSUME(p != 0); return p; }
/* vsnprintf for the two formats elem.c uses here ("%s.tmp", "%s.lock", "%s%s"): CBMC has no model of it */
#ifndef VF_NATIVE
int vsnprintf(char* dst, size_t size, const char* format, va_list ap)
{
	size_t o = 0; const char* f;
	for (f = format; *f; ++f) {
		if (f[0] == '%' && f[1] == 's') {
			const char* a = va_arg(ap, const char*);
			while (*a) { if (o + 1 < size) dst[o] = *a; ++o; ++a; }
			++f;
		} else {
			VF_ASSERT(*f != '%', "harness: only %s formats supported by the vsnprintf stub");
			if (o + 1 < size) dst[o] = *f;
			++o;
		}
	}
	if (size) dst[o < size ? o : size - 1] = 0;
	return (int)o;
}
#endif
void os_abort(void) { VF_ASSERT(0, "os_abort reached"); VF_STOP(); }

static void sym_string(char* s, unsigned maxlen)
{
	unsigned i, n = vf_in_u8();
	VF_ASSUME(n <= maxlen);
	for (i = 0; i < maxlen; ++i) { char c = (char)vf_in_u8(); s[i] = i < n ? c : 0; if (i < n) VF_ASSUME(c != 0); }
	s[maxlen] = 0;
}

/* ---------- reference: documented validity of a file/dir pattern ---------- */
static int ref_valid(const char* p, int* is_path, int* is_dir)
{
	/* components separated by '/'; a component made only of dots (".", "..", ...) or empty is invalid, except an empty
	 * first one (leading slash = rooted) and an empty last one (trailing slash = directory); at least one real component;
	 * a pattern with an inner slash must be rooted */
	int n = (int)strlen(p), i, start = 0, ncomp = 0, slashes = 0, first_slash = -1, last_slash = -1;
	/* a lone "/" is accepted by the tool as a directory pattern with an empty name (it matches nothing): not documented as
	 * malformed, so the reference follows the code here (see DESIGN.md C18) */
	if (n == 1 && p[0] == '/') { *is_dir = 1; *is_path = 0; return 1; }
	for (i = 0; i <= n; ++i) {
		if (i == n || p[i] == '/') {
			int len = i - start, k, alldots = 1;
			for (k = start; k < i; ++k) if (p[k] != '.') alldots = 0;
			if (i < n) { ++slashes; if (first_slash < 0) first_slash = i; last_slash = i; }
			if (len == 0) {
				if (!(start == 0 && i < n) && !(i == n && slashes > 0)) return 0;   /* empty: only as first or as last */
				if (start == 0 && i == n) return 0;
			} else {
				if (alldots) return 0;
				++ncomp;
			}
			start = i + 1;
		}
	}
	if (ncomp == 0) return 0;
	*is_dir = (n > 0 && p[n - 1] == '/');
	if (slashes == 0) { *is_path = 0; return 1; }
	if (slashes == 1 && *is_dir) { *is_path = 0; return 1; }
	*is_path = 1;
	return p[0] == '/';
}

void c18_alloc(void)
{
	char pat[PL + 1]; int ip = 0, id = 0, v;
	struct snapraid_filter* f;
	sym_string(pat, PL);
	v = ref_valid(pat, &ip, &id);
	f = filter_alloc_file(1, pat);
	VF_ASSERT((f != 0) == (v != 0), "filter_alloc_file rejects exactly the malformed patterns (dot components, empty components, un-rooted paths)");
	if (f) {
		unsigned n = strlen(pat);
		VF_ASSERT(f->is_disk == 0 && f->is_path == ip && f->is_dir == id, "pattern classified as name / rooted path, file / directory form");
		VF_ASSERT(strlen(f->pattern) == n - (id ? 1 : 0), "the trailing slash of the directory form is dropped, nothing else");
	}
	VF_WITNESS();
}

/* ---------- reference evaluator of a rule list ---------- */
static struct snapraid_filter F[NR];
static tommy_list list;

static int ref_rule(struct snapraid_filter* f, const char* disk, const char* sub, int is_dir)
{
	char buf[SL + 1]; unsigned i, start = 0, n = strlen(sub);
	if (f->is_disk)
		return fnmatch(f->pattern, disk, 0) == 0 ? f->direction : 0;
	/* every directory component (the path up to a slash) is a directory; the whole string is of the kind asked */
	for (i = 0; i <= n; ++i) {
		if (i == n || sub[i] == '/') {
			int kind_dir = (i < n) ? 1 : is_dir;
			if ((f->is_dir != 0) == (kind_dir != 0)) {
				unsigned k;
				if (f->is_path) {
					for (k = 0; k < i; ++k) buf[k] = sub[k];
					buf[i] = 0;
					if (fnmatch(f->pattern + 1, buf, FNM_PATHNAME) == 0) return f->direction;   /* rooted: whole path so far, wildcards do not cross '/' */
				} else {
					for (k = start; k < i; ++k) buf[k - start] = sub[k];
					buf[i - start] = 0;
					if (fnmatch(f->pattern, buf, 0) == 0) return f->direction;                  /* name pattern: this component only */
				}
			}
			start = i + 1;
		}
	}
	return 0;
}
static int ref_list(const char* disk, const char* sub, int is_dir, int is_def_include, unsigned nr)
{
	unsigned r; int def = 1;
	for (r = 0; r < nr; ++r) {
		int x = ref_rule(&F[r], disk, sub, is_dir);
		if (x > 0) return 0;        /* first matching rule decides: include */
		if (x < 0) return -1;       /* exclude */
		def = -F[r].direction;      /* no match: default is the opposite of the last rule */
	}
	if (is_def_include) return 0;
	return def < 0 ? -1 : 0;
}

#ifndef PATH_STR
#define PATH_STR "a/b"
#endif
/* The matcher being uninterpreted, the bytes of a path only matter through its component structure (where the slashes are,
 * which components are equal).  The driver enumerates the structures (PATH_STR); rule kinds, directions, rule count, the
 * matcher's answers and the entry point are symbolic. */
void c18_rules(void)
{
	char disk[2] = "d"; char sub[SL + 1] = PATH_STR; unsigned r, nr; int got, exp, mode;
	nr = NR;   /* the number of rules is enumerated by the driver: a symbolic list shape makes every node pointer symbolic */
	tommy_list_init(&list);
	for (r = 0; r < NR; ++r) {
		F[r].is_disk = vf_in_u8() & 1;
		F[r].is_path = vf_in_u8() & 1;
		F[r].is_dir = vf_in_u8() & 1;
		if (F[r].is_disk) { F[r].is_path = 0; F[r].is_dir = 0; }
		/* the text of a pattern is opaque to the rule logic; rooted patterns start with '/' (invariant of filter_alloc_file) */
		F[r].pattern[0] = '/'; F[r].pattern[1] = 'p'; F[r].pattern[2] = 0;
		F[r].direction = (vf_in_u8() & 1) ? 1 : -1;
		if (r < nr) tommy_list_insert_tail(&list, &F[r].node, &F[r]);
	}
	mode = vf_in_u8() % 3;
	/* the real code first, then the reference, sharing the uninterpreted matcher */
	if (mode == 0) { got = filter_path(&list, 0, disk, sub); exp = ref_list(disk, sub, 0, 0, nr); }
	else if (mode == 1) { got = filter_subdir(&list, 0, disk, sub); exp = ref_list(disk, sub, 1, 1, nr); }
	else { got = filter_emptydir(&list, 0, disk, sub); exp = ref_list(disk, sub, 1, 0, nr); }
	VF_ASSERT(got == exp, "first matching rule decides; no match: excluded iff the last rule is an include; name patterns per component, rooted patterns on the path");
	VF_WITNESS();
}

void c18_content(void)
{
	static struct snapraid_content C; tommy_list cl; char p[SL + 6]; int got, exp; unsigned n, k;
	char base[3];
	sym_string(base, 2);
	VF_ASSUME(base[0] != 0);
	for (k = 0; k < 3; ++k) C.content[k] = base[k];
	tommy_list_init(&cl);
	tommy_list_insert_tail(&cl, &C.node, &C);
	sym_string(p, SL + 1);
	got = filter_content(&cl, p);
	n = strlen(base);
	exp = 0;
	if (strcmp(p, base) == 0) exp = -1;
	if (strncmp(p, base, n) == 0 && (strcmp(p + n, ".tmp") == 0 || strcmp(p + n, ".lock") == 0)) exp = -1;
	VF_ASSERT(got == exp, "the content file, its .tmp and its .lock are always excluded, nothing else");
	VF_WITNESS();
}
#ifdef NEGCTL
void c18_negctl(void)
{
	/* wrong oracle: claims the LAST matching rule decides */
	char disk[2] = "d", sub[SL + 1] = "a/b"; unsigned r; int got, exp = 0, def = 1;
	tommy_list_init(&list);
	for (r = 0; r < 2; ++r) {
		F[r].pattern[0] = 'a' + r; F[r].pattern[1] = 0; F[r].is_disk = 0; F[r].is_path = 0; F[r].is_dir = 0;
		F[r].direction = (vf_in_u8() & 1) ? 1 : -1;
		tommy_list_insert_tail(&list, &F[r].node, &F[r]);
	}
	got = filter_path(&list, 0, disk, sub);
	for (r = 0; r < 2; ++r) { int x = ref_rule(&F[r], disk, sub, 0); if (x) exp = x > 0 ? 0 : -1; def = -F[r].direction; if (x) def = 0; }
	if (def != 0) exp = def < 0 ? -1 : 0;
	VF_ASSERT(got == exp, "WRONG ORACLE: last match wins");
}
#endif
