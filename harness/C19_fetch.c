/*
 * C19 - data taken from imported or duplicate files is used only after it matches the recorded hash of the block it
 * replaces: the real state_import_fetch (cmdline/import.c) and search_file_compare (cmdline/search.c).  The candidate
 * file delivers arbitrary decoy bytes; memhash is an injective uninterpreted function.
 */
#include "portable.h"
#include "support.h"
#include "elem.h"
#include "state.h"
#include "import.h"
#include "search.h"
#include "vf.h"
#define UFBS 64
#define UFK 6
#define UF_SEED_MATTERS 1
#include "stubs/uf_hash.h"
#define BS 64

int exit_success = 0, exit_failure = 1, exit_sync_needed = 2;
#ifndef VF_NATIVE
/* bounded byte loops instead of CBMC's library models (a symbolic length makes those an array replace over every object) */
void* memcpy(void* dst, const void* src, size_t n) { unsigned char* d = dst; const unsigned char* s = src; size_t i; VF_ASSERT(n <= 64, "harness: memcpy <= 64"); for (i = 0; i < 64; ++i) if (i < n) d[i] = s[i]; return dst; }
void* memset(void* dst, int c, size_t n) { unsigned char* d = dst; size_t i; VF_ASSERT(n <= 64, "harness: memset <= 64"); for (i = 0; i < 64; ++i) if (i < n) d[i] = (unsigned char)c; return dst; }
int memcmp(const void* a, const void* b, size_t n) { const unsigned char* x = a; const unsigned char* y = b; size_t i; int r = 0; VF_ASSERT(n <= 16, "harness: memcmp <= 16"); for (i = 0; i < 16; ++i) if (i < n && x[i] != y[i]) r = 1; return r; }
#endif
static struct snapraid_state S; static struct vf_blk64 DECOY, WANT; static unsigned char BV[1 + HASH_MAX] __attribute__((aligned(8)));
static struct snapraid_import_block IB; static struct snapraid_import_file IF_; static int have_candidate, exited, preads; static char pth[4] = "imp";
static unsigned char buf[BS + 8] __attribute__((aligned(8)));

static tommy_hashdyn_node* bucket1[1]; static tommy_hashdyn_node* bucket2[1];
int open(const char* p, int flags, ...) { (void)p; VF_ASSERT((flags & (O_WRONLY | O_RDWR | O_CREAT | O_TRUNC)) == 0, "C12: import / duplicate sources are opened read-only"); return 5; }
ssize_t pread(int fd, void* b, size_t n, off_t off) { unsigned i; (void)fd; (void)off; ++preads; VF_ASSERT(n <= BS, "read within one block"); for (i = 0; i < BS; ++i) if (i < n) ((unsigned char*)b)[i] = DECOY.b[i]; return (ssize_t)n; }
int close(int fd) { (void)fd; return 0; }
char* strerror(int e) { (void)e; return ""; }
#ifndef VF_NATIVE
void exit(int c) { (void)c; exited = 1; VF_WITNESS(); VF_STOP(); }
#endif

static unsigned setup(int rehash)
{
	unsigned len = vf_in_u8(), k; uint64_t d[2];
	VF_ASSUME(len >= 1 && len <= BS);
	BLOCK_HASH_SIZE = 16; S.block_size = BS; S.hash = HASH_MURMUR3; S.prevhash = HASH_SPOOKY2;
	WANT = vf_in_blk64(); DECOY = vf_in_blk64();
	if (rehash) uf_digest_seed(S.prevhash, S.prevhashseed, WANT.b, len, d); else uf_digest_seed(S.hash, S.hashseed, WANT.b, len, d);
	memcpy(((struct snapraid_block*)BV)->hash, d, 16);
	for (k = 0; k < BS + 8; ++k) buf[k] = 0xEE;
	return len;
}
void c19_import_fetch(void)
{
	int rehash = vf_in_u8() & 1, ret; unsigned len = setup(rehash), k; int eq = 1;
	have_candidate = vf_in_u8() & 1;
	IB.file = &IF_; IF_.path = pth; IB.size = len; IB.offset = vf_in_u32();
	/* the import index lists the candidate under the hash it had when it was indexed: here the wanted one (that is why it is found);
	 * what the file holds NOW is arbitrary */
	memcpy(IB.hash, ((struct snapraid_block*)BV)->hash, 16); memcpy(IB.prevhash, ((struct snapraid_block*)BV)->hash, 16);
	/* a real one-bucket hash table holding the candidate (tommy_hashdyn_search is the real inline code) */
	{ const unsigned char* h = ((struct snapraid_block*)BV)->hash; tommy_hash_t hv = h[0] | ((uint32_t)h[1] << 8) | ((uint32_t)h[2] << 16) | ((uint32_t)h[3] << 24);
	  IB.nodeset.next = 0; IB.nodeset.prev = &IB.nodeset; IB.nodeset.data = &IB; IB.nodeset.index = hv; IB.prevnodeset = IB.nodeset;
	  bucket1[0] = have_candidate ? &IB.nodeset : 0; bucket2[0] = have_candidate ? &IB.prevnodeset : 0;
	  S.importset.bucket = bucket1; S.importset.bucket_mask = 0; S.importset.bucket_max = 1; S.importset.count = have_candidate; S.importset.bucket_bit = 0;
	  S.previmportset.bucket = bucket2; S.previmportset.bucket_mask = 0; S.previmportset.bucket_max = 1; S.previmportset.count = have_candidate; S.previmportset.bucket_bit = 0; }
	ret = state_import_fetch(&S, rehash, (struct snapraid_block*)BV, buf);
	for (k = 0; k < BS; ++k) if (k < len && DECOY.b[k] != WANT.b[k]) eq = 0;
	if (ret == 0) {
		VF_ASSERT(have_candidate && eq, "C19: an imported block is accepted only if the bytes read now hash to the recorded hash of the block it replaces");
		for (k = 0; k < BS; ++k) VF_ASSERT(buf[k] == (k < len ? WANT.b[k] : 0), "accepted data = the recorded bytes, zero padded to the block");
	} else {
		VF_ASSERT(ret == -1 && !have_candidate, "no candidate: not found");
	}
	for (k = BS; k < BS + 8; ++k) VF_ASSERT(buf[k] == 0xEE, "nothing written past the block");
	VF_WITNESS();
}
struct search_file_compare_arg { const struct snapraid_state* state; const struct snapraid_block* block; const struct snapraid_file* file; unsigned char* buffer; data_off_t offset; unsigned read_size; int prevhash; };
int search_file_compare(const void* void_arg, const void* void_data);
void c19_search_compare(void)
{
	int rehash = vf_in_u8() & 1, ret; unsigned len = setup(rehash), k; int eq = 1;
	static struct snapraid_file F; static struct snapraid_search_file SF; struct search_file_compare_arg A;
	F.size = vf_in_u32(); F.mtime_sec = vf_in_u32(); F.mtime_nsec = (int)(vf_in_u32() % 1000000000);
	SF.path = pth; SF.size = vf_in_u32(); SF.mtime_sec = vf_in_u32(); SF.mtime_nsec = (int)(vf_in_u32() % 1000000000);
	A.state = &S; A.block = (struct snapraid_block*)BV; A.file = &F; A.buffer = buf; A.offset = 0; A.read_size = len; A.prevhash = rehash;
	ret = search_file_compare(&A, &SF);
	for (k = 0; k < BS; ++k) if (k < len && DECOY.b[k] != WANT.b[k]) eq = 0;
	if (ret == 0) {
		VF_ASSERT(F.size == SF.size && F.mtime_sec == SF.mtime_sec && F.mtime_nsec == SF.mtime_nsec, "C19: a duplicate is a candidate only with the same size and time-stamp");
		VF_ASSERT(eq, "C19: and its data is used only if it hashes to the recorded hash");
		for (k = 0; k < BS; ++k) VF_ASSERT(buf[k] == (k < len ? WANT.b[k] : 0), "accepted data = the recorded bytes, zero padded");
	}
	if (!(F.size == SF.size && F.mtime_sec == SF.mtime_sec && F.mtime_nsec == SF.mtime_nsec)) VF_ASSERT(preads == 0, "files with other attributes are not even read");
	VF_WITNESS();
}
#ifdef NEGCTL
void c19_negctl(void)
{
	unsigned len = setup(0); int ret;
	have_candidate = 1; IB.file = &IF_; IF_.path = pth; IB.size = len; IB.offset = 0;
	memcpy(IB.hash, ((struct snapraid_block*)BV)->hash, 16);
	{ const unsigned char* h = ((struct snapraid_block*)BV)->hash; tommy_hash_t hv = h[0] | ((uint32_t)h[1] << 8) | ((uint32_t)h[2] << 16) | ((uint32_t)h[3] << 24);
	  IB.nodeset.next = 0; IB.nodeset.data = &IB; IB.nodeset.index = hv; bucket1[0] = &IB.nodeset; S.importset.bucket = bucket1; S.importset.bucket_mask = 0; }
	ret = state_import_fetch(&S, 0, (struct snapraid_block*)BV, buf);
	VF_ASSERT(ret != 0, "WRONG ORACLE: an import never succeeds");
}
#endif
