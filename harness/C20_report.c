/*
 * C20 - report faithfulness, the parts that are functions of in-memory state:
 *   esc_tag / esc_shell_multi (cmdline/support.c): names of arbitrary bytes survive the log / shell output unambiguously;
 *   hash_alloc (cmdline/dup.c): the duplicate key of a file is the hash of exactly the sequence of its block hashes, and
 *   files with any block lacking an up-to-date hash get no key.
 */
#include "portable.h"
#include "support.h"
#include "elem.h"
#include "state.h"
#include "vf.h"

#ifndef SLEN
#define SLEN 5
#endif
static int exited;
#ifndef VF_NATIVE
void exit(int c) { (void)c; exited = 1; VF_STOP(); }
#endif
void* malloc_nofail(size_t size) { void* p = malloc(size); VF_ASSUME(p != 0); return p; }

static void sym_str(char* s)
{
	unsigned i, n = vf_in_u8();
	VF_ASSUME(n <= SLEN);
	for (i = 0; i < SLEN; ++i) { char c = (char)vf_in_u8(); s[i] = i < n ? c : 0; if (i < n) VF_ASSUME(c != 0); }
	s[SLEN] = 0;
}
/* inverse of the log escaping, written from the documentation of the log format: \n \r \d \\ */
static int unesc_tag(const char* e, char* out)
{
	unsigned o = 0;
	while (*e) {
		if (*e == '\\') {
			++e;
			if (*e == 'n') out[o++] = '\n'; else if (*e == 'r') out[o++] = '\r'; else if (*e == 'd') out[o++] = ':'; else if (*e == '\\') out[o++] = '\\'; else return -1;
		} else out[o++] = *e;
		++e;
		if (o > SLEN) return -1;
	}
	out[o] = 0;
	return 0;
}
void c20_esc_tag(void)
{
	char a[SLEN + 1], b[SLEN + 1], d[SLEN + 2]; static char ea[ESC_MAX], eb[ESC_MAX]; const char* ra; const char* rb; unsigned i;
	sym_str(a); sym_str(b);
	ra = esc_tag(a, ea); rb = esc_tag(b, eb);
	for (i = 0; i < 2 * SLEN + 1; ++i) { if (ra[i] == 0) break; VF_ASSERT(ra[i] != ':' && ra[i] != '\n' && ra[i] != '\r', "no raw field separator or line break in the escaped name"); }
	VF_ASSERT(unesc_tag(ra, d) == 0 && strcmp(d, a) == 0, "the escaped name decodes back to the original bytes");
	if (strcmp(ra, rb) == 0) VF_ASSERT(strcmp(a, b) == 0, "two different names never produce the same output (unambiguous)");
	VF_WITNESS();
}
static int is_shell_special(char c)
{
	const char* s = " ~`#$&*()\\|[]{};'\"<>?";
	for (; *s; ++s) if (*s == c) return 1;
	return 0;
}
void c20_esc_shell(void)
{
	char a[SLEN + 1], b[SLEN + 1]; static char ea[ESC_MAX]; const char* m[2]; const char* r; unsigned i, o = 0; char d[2 * SLEN + 2];
	sym_str(a); sym_str(b);
	m[0] = a; m[1] = b;
	r = esc_shell_multi(m, 2, ea);
	/* unescape the way a POSIX shell does outside quotes: backslash takes the next byte literally */
	for (i = 0; r[i]; ++i) {
		if (r[i] == '\\') { ++i; VF_ASSERT(r[i] != 0, "no dangling backslash"); d[o++] = r[i]; }
		else { VF_ASSERT(!is_shell_special(r[i]), "every shell-special byte is protected by a backslash"); d[o++] = r[i]; }
		if (o > 2 * SLEN) break;
	}
	d[o] = 0;
	VF_ASSERT(o == strlen(a) + strlen(b) && strncmp(d, a, strlen(a)) == 0 && strcmp(d + strlen(a), b) == 0, "the shell reads back exactly the concatenated names");
	VF_WITNESS();
}

/* ---- dup key ---- */
struct snapraid_hash { struct snapraid_disk* disk; struct snapraid_file* file; unsigned char hash[HASH_MAX]; tommy_hashdyn_node node; };
struct snapraid_hash* hash_alloc(struct snapraid_state* state, struct snapraid_disk* disk, struct snapraid_file* file);
#ifndef NBLKF
#define NBLKF 2
#endif
static unsigned char rec_buf[NBLKF * HASH_MAX + 1]; static size_t rec_len; static unsigned rec_kind, rec_calls; static const unsigned char* rec_seed;
void memhash(unsigned kind, const unsigned char* seed, void* digest, const void* src, size_t size)
{
	size_t i;
	++rec_calls; rec_kind = kind; rec_seed = seed; rec_len = size;
	VF_ASSERT(size <= NBLKF * HASH_MAX, "harness: bound");
	for (i = 0; i < NBLKF * HASH_MAX; ++i) if (i < size) rec_buf[i] = ((const unsigned char*)src)[i];
	for (i = 0; i < HASH_MAX; ++i) ((unsigned char*)digest)[i] = (unsigned char)(0xA0 + i);
}
struct snapraid_block* fs_file2block_get(struct snapraid_file* file, block_off_t file_pos)
{
	VF_ASSERT(file_pos < file->blockmax, "block index inside the file");
	return file_block(file, file_pos);
}
void c20_dupkey(void)
{
	static struct snapraid_state S; static struct snapraid_file F; static unsigned char vec[NBLKF * (1 + HASH_MAX)];
	struct snapraid_hash* h; unsigned i, k, all_updated = 1; uint8_t hs;
	hs = (vf_in_u8() & 1) ? 16 : 8;
	BLOCK_HASH_SIZE = hs;
	F.blockmax = vf_in_u8(); VF_ASSUME(F.blockmax >= 1 && F.blockmax <= NBLKF);
	F.blockvec = (struct snapraid_block*)vec;
	for (i = 0; i < sizeof(vec); ++i) vec[i] = vf_in_u8();
	for (i = 0; i < NBLKF; ++i) {
		struct snapraid_block* b = file_block(&F, i);
		unsigned st = block_state_get(b);
		VF_ASSUME(st == BLOCK_STATE_BLK || st == BLOCK_STATE_CHG || st == BLOCK_STATE_REP);
		if (i < F.blockmax && !(st == BLOCK_STATE_BLK || st == BLOCK_STATE_REP)) all_updated = 0;
	}
	S.besthash = HASH_MURMUR3; rec_calls = 0;
	h = hash_alloc(&S, 0, &F);
	VF_ASSERT((h != 0) == (all_updated != 0), "a file gets a duplicate key iff every block has an up-to-date hash");
	if (h) {
		VF_ASSERT(rec_calls == 1 && rec_kind == S.besthash && rec_seed == S.hashseed, "one digest with the array's hash and seed");
		VF_ASSERT(rec_len == (size_t)F.blockmax * hs, "the key covers exactly blockmax hashes");
		for (i = 0; i < NBLKF; ++i) for (k = 0; k < HASH_MAX; ++k)
			if (i < F.blockmax && k < hs) VF_ASSERT(rec_buf[i * hs + k] == file_block(&F, i)->hash[k], "the key input is the sequence of block hashes, in file order");
		VF_ASSERT(h->file == &F && h->hash[3] == 0xA3, "key stored with its file");
	}
	VF_WITNESS();
}
#ifdef NEGCTL
void c20_negctl(void)
{
	char a[SLEN + 1]; static char ea[ESC_MAX]; const char* r;
	sym_str(a);
	r = esc_tag(a, ea);
	VF_ASSERT(strlen(r) <= strlen(a) + 1, "WRONG ORACLE: at most one byte needs escaping");
}
#endif
