/* engine self-check: micro harnesses with known answers, run with the flags of the real harnesses */
#include "vf.h"
#include <string.h>

static const uint8_t tab[4][4] = {{0,1,2,3},{0,2,4,6},{0,3,6,5},{0,4,8,12}};

/* must pass: direct 2-D indexing with symbolic indices */
void sc_table2d(void)
{
	uint8_t a = vf_in_u8(), b = vf_in_u8();
	VF_ASSUME(a < 4 && b < 4);
	uint8_t r = tab[a][b];
	uint8_t e = 0; unsigned i;
	/* carry-less product a*b in GF(2)[x] (degree small enough not to need reduction) */
	for (i = 0; i < 3; ++i) if ((a + 1) & (1u << i)) e ^= (uint8_t)(b << i);  /* row a holds (a+1)*b */
	VF_ASSERT(r == e, "2-D table lookup");
	VF_WITNESS();
}

/* must pass: type-punned 64-bit load from a byte array, struct copy, function pointer */
struct pair { uint32_t x; uint8_t y[4]; };
static uint32_t inc(uint32_t v) { return v + 1; }
void sc_punning(void)
{
	uint8_t buf[16]; unsigned i;
	struct vf_blk8 B = vf_in_blk8();
	memcpy(buf + 4, B.b, 8);
	uint64_t w = *(uint64_t*)(buf + 4);
	uint64_t e = 0;
	for (i = 0; i < 8; ++i) e |= (uint64_t)B.b[i] << (8 * i);
	VF_ASSERT(w == e, "little-endian 64-bit load");
	struct pair p, q; p.x = vf_in_u32(); memcpy(p.y, B.b, 4); q = p;
	uint32_t (*f)(uint32_t) = inc;
	VF_ASSERT(q.x == p.x && q.y[3] == B.b[3] && f(q.x) == p.x + 1, "struct copy / function pointer");
	VF_WITNESS();
}

/* must FAIL: off-by-one oracle */
void sc_offbyone(void)
{
	uint8_t a = vf_in_u8();
	VF_ASSUME(a < 4);
	VF_ASSERT(tab[1][a] != 6, "deliberately wrong: tab[1][3] is 6");
}
