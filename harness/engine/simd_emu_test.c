/* native differential test of simd_emu.h against the real instructions (gcc -mavx2 intrinsics) */
#include <immintrin.h>
#include <stdio.h>
#include <string.h>
#include <stdlib.h>
#include "simd_emu.h"

static uint64_t rng = 0x9e3779b97f4a7c15ULL;
static uint64_t rnd(void) { rng ^= rng << 13; rng ^= rng >> 7; rng ^= rng << 17; return rng; }
static int fails;
static void put(int r, const uint8_t* b) { memcpy(emu_R[r], b, 32); }
static void cmp(const char* what, int r, __m256i v, int w) { uint8_t o[32]; _mm256_storeu_si256((__m256i*)o, v); if (memcmp(emu_R[r], o, w)) { printf("MISMATCH %s w=%d\n", what, w); ++fails; } }

int main(void)
{
	uint8_t a[32], b[32]; int it, i, imm;
	for (it = 0; it < 20000; ++it) {
		for (i = 0; i < 32; ++i) { uint64_t x = rnd(); a[i] = (uint8_t)x; b[i] = (uint8_t)(x >> 8); }
		if (it < 256) { for (i = 0; i < 32; ++i) { a[i] = (uint8_t)(it + i * 7); b[i] = (uint8_t)(it ^ (i * 13)); } }
		if (it >= 256 && it < 512) { for (i = 0; i < 32; ++i) { a[i] = (uint8_t)it; b[i] = (uint8_t)i * 8 + (it & 7); } }
		__m256i A = _mm256_loadu_si256((const __m256i*)a), B = _mm256_loadu_si256((const __m256i*)b);
		int w;
		for (w = 16; w <= 32; w += 16) {
			put(1, a); put(2, b); emu_xor(3, 1, 2, w); cmp("xor", 3, _mm256_xor_si256(A, B), w);
			put(1, a); put(2, b); emu_and(3, 1, 2, w); cmp("and", 3, _mm256_and_si256(A, B), w);
			put(1, a); put(2, b); emu_addb(3, 1, 2, w); cmp("addb", 3, _mm256_add_epi8(A, B), w);
			put(1, a); put(2, b); emu_cmpgtb(3, 1, 2, w); cmp("cmpgtb", 3, _mm256_cmpgt_epi8(A, B), w);
			put(1, a); put(2, b); emu_shufb(3, 1, 2, w); cmp("shufb", 3, _mm256_shuffle_epi8(A, B), w);
			put(1, a); put(2, b); emu_shufb(1, 1, 2, w); cmp("shufb-inplace", 1, _mm256_shuffle_epi8(A, B), w);
			put(1, a); emu_mov(3, 1, w); cmp("mov", 3, A, w);
			for (imm = 0; imm < 18; ++imm) {
				put(1, a); emu_srlw(3, 1, imm, w); cmp("srlw", 3, _mm256_srl_epi16(A, _mm_cvtsi32_si128(imm)), w);
				put(1, a); emu_sllw(3, 1, imm, w); cmp("sllw", 3, _mm256_sll_epi16(A, _mm_cvtsi32_si128(imm)), w);
			}
		}
		emu_load(4, 32, a); cmp("load", 4, A, 32);
		{ uint8_t o[32]; put(5, b); emu_store(5, 32, o); if (memcmp(o, b, 32)) { printf("MISMATCH store\n"); ++fails; } }
		emu_broadcast128(6, a); cmp("broadcast", 6, _mm256_broadcastsi128_si256(_mm_loadu_si128((const __m128i*)a)), 32);
	}
	printf("simd_emu_test: %s (%d mismatches)\n", fails ? "FAILED" : "ok", fails);
	return fails != 0;
}
