/* SSE4.2 CRC32 instruction semantics (Intel SDM: CRC-32C, polynomial 0x11EDC6F41, bit-reflected operands):
 * accumulate the source operand into the 32-bit CRC, least significant bit first. Validated natively against
 * _mm_crc32_u8/u32/u64 by harness/engine/simd_emu_test.c. */
#ifndef CRC_EMU_H
#define CRC_EMU_H
#include <stdint.h>
static inline uint32_t emu_crc32_bits(uint32_t crc, uint64_t v, unsigned bits)
{
	unsigned i;
	for (i = 0; i < bits; ++i) {
		uint32_t b = (crc ^ (uint32_t)(v >> i)) & 1;
		crc = (crc >> 1) ^ (b ? 0x82F63B78u : 0);
	}
	return crc;
}
#define emu_crc32b(crc, v) ((uint32_t)emu_crc32_bits((uint32_t)(crc), (uint8_t)(v), 8))
#define emu_crc32l(crc, v) ((uint32_t)emu_crc32_bits((uint32_t)(crc), (uint32_t)(v), 32))
#define emu_crc32q(crc, v) ((uint64_t)emu_crc32_bits((uint32_t)(crc), (uint64_t)(v), 64))
#endif
