/*
 * simd_emu.h - semantics of the SSE2/SSSE3/AVX2 instructions used by raid/x86.c and raid/x86z.c on a virtual
 * register file (16 architectural registers + 1 temporary for memory operands), written from the Intel SDM.
 * Loop free (macros) so that it does not interact with --unwind.  Validated against the real instructions by
 * harness/engine/simd_emu_test.c (native, gcc -mavx2 intrinsics) on every run.
 *   w = 16: xmm form, only the low 128 bits are read/written (legacy SSE encoding leaves the upper bits alone)
 *   w = 32: ymm form (VEX.256); vpshufb works per 128-bit lane.
 * Non-temporal stores are ordinary stores; sfence / vzeroupper are no-ops (ordering is outside the claim).
 */
#ifndef SIMD_EMU_H
#define SIMD_EMU_H
#include <stdint.h>

#define EMU_TMP 16
static uint64_t emu_R[17][4];

#define EMU_FORQ(w, stmt) do { { enum { q = 0 }; stmt; } { enum { q = 1 }; stmt; } if ((w) == 32) { { enum { q = 2 }; stmt; } { enum { q = 3 }; stmt; } } } while (0)

static inline void emu_load(int r, int w, const void* p)
{
	const uint64_t* s = (const uint64_t*)p;
	emu_R[r][0] = s[0]; emu_R[r][1] = s[1];
	if (w == 32) { emu_R[r][2] = s[2]; emu_R[r][3] = s[3]; }
}
static inline void emu_store(int r, int w, void* p)
{
	uint64_t* d = (uint64_t*)p;
	d[0] = emu_R[r][0]; d[1] = emu_R[r][1];
	if (w == 32) { d[2] = emu_R[r][2]; d[3] = emu_R[r][3]; }
}
static inline void emu_broadcast128(int r, const void* p)
{
	const uint64_t* s = (const uint64_t*)p;
	emu_R[r][0] = s[0]; emu_R[r][1] = s[1]; emu_R[r][2] = s[0]; emu_R[r][3] = s[1];
}
static inline void emu_mov(int d, int s, int w) { EMU_FORQ(w, emu_R[d][q] = emu_R[s][q]); }
static inline void emu_xor(int d, int a, int b, int w) { EMU_FORQ(w, emu_R[d][q] = emu_R[a][q] ^ emu_R[b][q]); }
static inline void emu_and(int d, int a, int b, int w) { EMU_FORQ(w, emu_R[d][q] = emu_R[a][q] & emu_R[b][q]); }

/* per-byte wrapping add */
static inline uint64_t emu_addb_q(uint64_t a, uint64_t b)
{
	const uint64_t L = 0x7f7f7f7f7f7f7f7fULL, H = 0x8080808080808080ULL;
	return ((a & L) + (b & L)) ^ ((a ^ b) & H);
}
static inline void emu_addb(int d, int a, int b, int w) { EMU_FORQ(w, emu_R[d][q] = emu_addb_q(emu_R[a][q], emu_R[b][q])); }

/* per-byte signed compare: 0xff where a > b */
#define EMU_GT1(a, b, k) (((int8_t)(uint8_t)((a) >> (8 * (k))) > (int8_t)(uint8_t)((b) >> (8 * (k)))) ? ((uint64_t)0xff << (8 * (k))) : 0)
static inline uint64_t emu_cmpgtb_q(uint64_t a, uint64_t b)
{
	return EMU_GT1(a, b, 0) | EMU_GT1(a, b, 1) | EMU_GT1(a, b, 2) | EMU_GT1(a, b, 3) | EMU_GT1(a, b, 4) | EMU_GT1(a, b, 5) | EMU_GT1(a, b, 6) | EMU_GT1(a, b, 7);
}
static inline void emu_cmpgtb(int d, int a, int b, int w) { EMU_FORQ(w, emu_R[d][q] = emu_cmpgtb_q(emu_R[a][q], emu_R[b][q])); }

/* per-16-bit-word logical shifts by an immediate */
static inline void emu_srlw(int d, int a, int imm, int w)
{
	uint64_t m = (uint64_t)(0xffffu >> imm) * 0x0001000100010001ULL;
	EMU_FORQ(w, emu_R[d][q] = imm > 15 ? 0 : ((emu_R[a][q] >> imm) & m));
}
static inline void emu_sllw(int d, int a, int imm, int w)
{
	uint64_t m = (uint64_t)((0xffffu << imm) & 0xffffu) * 0x0001000100010001ULL;
	EMU_FORQ(w, emu_R[d][q] = imm > 15 ? 0 : ((emu_R[a][q] << imm) & m));
}

/* pshufb: out[i] = idx[i] & 0x80 ? 0 : table[idx[i] & 15], independently in each 128-bit lane */
#define EMU_T8(T, lo, k) T[k] = (uint8_t)((lo) >> (8 * (k)))
#define EMU_SH1(T, x, k) ((((x) >> (8 * (k))) & 0x80) ? (uint64_t)0 : ((uint64_t)T[((x) >> (8 * (k))) & 15] << (8 * (k))))
static inline void emu_shufb_lane(uint64_t* out, const uint64_t tlo, const uint64_t thi, const uint64_t ilo, const uint64_t ihi)
{
	uint8_t T[16];
	EMU_T8(T, tlo, 0); EMU_T8(T, tlo, 1); EMU_T8(T, tlo, 2); EMU_T8(T, tlo, 3); EMU_T8(T, tlo, 4); EMU_T8(T, tlo, 5); EMU_T8(T, tlo, 6); EMU_T8(T, tlo, 7);
	T[8] = (uint8_t)(thi); T[9] = (uint8_t)(thi >> 8); T[10] = (uint8_t)(thi >> 16); T[11] = (uint8_t)(thi >> 24);
	T[12] = (uint8_t)(thi >> 32); T[13] = (uint8_t)(thi >> 40); T[14] = (uint8_t)(thi >> 48); T[15] = (uint8_t)(thi >> 56);
	out[0] = EMU_SH1(T, ilo, 0) | EMU_SH1(T, ilo, 1) | EMU_SH1(T, ilo, 2) | EMU_SH1(T, ilo, 3) | EMU_SH1(T, ilo, 4) | EMU_SH1(T, ilo, 5) | EMU_SH1(T, ilo, 6) | EMU_SH1(T, ilo, 7);
	out[1] = EMU_SH1(T, ihi, 0) | EMU_SH1(T, ihi, 1) | EMU_SH1(T, ihi, 2) | EMU_SH1(T, ihi, 3) | EMU_SH1(T, ihi, 4) | EMU_SH1(T, ihi, 5) | EMU_SH1(T, ihi, 6) | EMU_SH1(T, ihi, 7);
}
static inline void emu_shufb(int d, int table, int idx, int w)
{
	uint64_t o[2];
	uint64_t t0 = emu_R[table][0], t1 = emu_R[table][1], t2 = emu_R[table][2], t3 = emu_R[table][3];
	uint64_t i0 = emu_R[idx][0], i1 = emu_R[idx][1], i2 = emu_R[idx][2], i3 = emu_R[idx][3];
	emu_shufb_lane(o, t0, t1, i0, i1);
	emu_R[d][0] = o[0]; emu_R[d][1] = o[1];
	if (w == 32) {
		emu_shufb_lane(o, t2, t3, i2, i3);
		emu_R[d][2] = o[0]; emu_R[d][3] = o[1];
	}
}
#endif
