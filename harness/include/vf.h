/*
 * vf.h - harness API shared by the CBMC build and the native replay build.
 *
 * Inputs are drawn through vf_in_*(): under CBMC each call returns a fresh
 * nondeterministic value (the solver's variable); under -DVF_NATIVE each call
 * pops the next value of the replay tape extracted from the CBMC trace, so the
 * counterexample is re-executed against the natively compiled /repo code.
 */
#ifndef VF_H
#define VF_H

#include <stdint.h>
#include <stddef.h>

struct vf_blk64 { uint8_t b[64]; };
struct vf_blk8 { uint8_t b[8]; };
struct vf_blk16 { uint8_t b[16]; };
struct vf_blk128 { uint8_t b[128]; };

#ifndef VF_NATIVE

uint8_t nondet_u8(void);
uint16_t nondet_u16(void);
uint32_t nondet_u32(void);
uint64_t nondet_u64(void);
int nondet_int(void);
struct vf_blk64 nondet_blk64(void);
struct vf_blk8 nondet_blk8(void);
struct vf_blk16 nondet_blk16(void);
struct vf_blk128 nondet_blk128(void);

static inline uint8_t vf_in_u8(void) { uint8_t vf_v = nondet_u8(); return vf_v; }
static inline uint16_t vf_in_u16(void) { uint16_t vf_v = nondet_u16(); return vf_v; }
static inline uint32_t vf_in_u32(void) { uint32_t vf_v = nondet_u32(); return vf_v; }
static inline uint64_t vf_in_u64(void) { uint64_t vf_v = nondet_u64(); return vf_v; }
static inline int vf_in_int(void) { int vf_v = nondet_int(); return vf_v; }
static inline struct vf_blk64 vf_in_blk64(void) { struct vf_blk64 vf_v = nondet_blk64(); return vf_v; }
static inline struct vf_blk8 vf_in_blk8(void) { struct vf_blk8 vf_v = nondet_blk8(); return vf_v; }
static inline struct vf_blk16 vf_in_blk16(void) { struct vf_blk16 vf_v = nondet_blk16(); return vf_v; }
static inline struct vf_blk128 vf_in_blk128(void) { struct vf_blk128 vf_v = nondet_blk128(); return vf_v; }

#define VF_ASSUME(c) __CPROVER_assume(c)
/* reachability witness: the final VF_WITNESS() is an assert(0) that must be reported VIOLATED in the same run in which
 * every other property is reported SUCCESS (CBMC checks all properties independently) - guards against vacuous harnesses */
#define VF_ASSERT(c, msg) __CPROVER_assert((c), "VF: " msg)
#define VF_WITNESS() __CPROVER_assert(0, "VF_WITNESS end of harness reachable")
#define VF_STOP() __CPROVER_assume(0)

#else /* VF_NATIVE */

#include <stdio.h>
#include <stdlib.h>

uint64_t vf_tape_next(void);
void vf_tape_bytes(uint8_t* p, unsigned n);

static inline uint8_t vf_in_u8(void) { return (uint8_t)vf_tape_next(); }
static inline uint16_t vf_in_u16(void) { return (uint16_t)vf_tape_next(); }
static inline uint32_t vf_in_u32(void) { return (uint32_t)vf_tape_next(); }
static inline uint64_t vf_in_u64(void) { return (uint64_t)vf_tape_next(); }
static inline int vf_in_int(void) { return (int)vf_tape_next(); }
static inline struct vf_blk64 vf_in_blk64(void) { struct vf_blk64 v; vf_tape_bytes(v.b, 64); return v; }
static inline struct vf_blk8 vf_in_blk8(void) { struct vf_blk8 v; vf_tape_bytes(v.b, 8); return v; }
static inline struct vf_blk16 vf_in_blk16(void) { struct vf_blk16 v; vf_tape_bytes(v.b, 16); return v; }
static inline struct vf_blk128 vf_in_blk128(void) { struct vf_blk128 v; vf_tape_bytes(v.b, 128); return v; }

/* exit codes of a replay: 0 = ran to the end, all assertions held;
 * 1 = assertion violated (reproduced); 77 = an assumption did not hold
 * (tape does not describe an admissible input: replay inconclusive) */
#define VF_ASSUME(c) do { if (!(c)) { fprintf(stderr, "VF_REPLAY assumption not met: %s (%s:%d)\n", #c, __FILE__, __LINE__); exit(77); } } while (0)
#define VF_ASSERT(c, msg) do { if (!(c)) { printf("VF_REPLAY assertion violated: %s [%s] (%s:%d)\n", msg, #c, __FILE__, __LINE__); fflush(stdout); exit(1); } } while (0)
#define VF_WITNESS() ((void)0)
#define VF_STOP() exit(78)
#define __CPROVER_assume(c) VF_ASSUME(c)
#define __CPROVER_assert(c, msg) VF_ASSERT(c, msg)

#endif

#endif
