/* native replay runtime: tape reader + main() */
#define VF_NATIVE 1
#include "vf.h"
#include <string.h>

static uint64_t* tape;
static size_t tape_n, tape_i;

uint64_t vf_tape_next(void)
{
	if (tape_i >= tape_n) {
		/* the native run asks for more inputs than the trace had: path diverged;
		 * feed zeros, the verdict is taken from the assertions only */
		return 0;
	}
	return tape[tape_i++];
}

void vf_tape_bytes(uint8_t* p, unsigned n)
{
	unsigned i;
	for (i = 0; i < n; ++i)
		p[i] = (uint8_t)vf_tape_next();
}

void VF_HARNESS(void);

int main(int argc, char** argv)
{
	FILE* f;
	size_t cap = 1024;
	unsigned long long v;
	if (argc < 2) { fprintf(stderr, "usage: %s tape.txt\n", argv[0]); return 2; }
	f = fopen(argv[1], "r");
	if (!f) { perror(argv[1]); return 2; }
	tape = malloc(cap * sizeof(uint64_t));
	while (fscanf(f, "%llu", &v) == 1) {
		if (tape_n == cap) { cap *= 2; tape = realloc(tape, cap * sizeof(uint64_t)); }
		tape[tape_n++] = v;
	}
	fclose(f);
	VF_HARNESS();
	printf("VF_REPLAY end of harness, all assertions held\n");
	return 0;
}
