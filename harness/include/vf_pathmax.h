/* force-included (CBMC builds only): shrink the PATH_MAX-sized path members embedded in
 * snapraid_split_handle / snapraid_handle / snapraid_disk / snapraid_state so that whole-object
 * updates stay small in the formula. Stated bound: "path buffers of 64 bytes". */
#include "config.h"   /* feature-test macros (_GNU_SOURCE ...) must be set before the first libc header */
#include <limits.h>
#undef PATH_MAX
#define PATH_MAX 64
