/* logging / abort stubs shared by harnesses: formatting is not the subject.
 * vf_fatal counts log_fatal calls, vf_aborted is set by os_abort/exit (then the path is cut). */
#include "portable.h"
#include "support.h"
#include "vf.h"

int vf_fatal;
int vf_tag;
int vf_exited;

void log_fatal(const char* format, ...) { (void)format; ++vf_fatal; }
void log_error(const char* format, ...) { (void)format; }
void log_expected(const char* format, ...) { (void)format; }
#ifndef VF_OWN_LOG_TAG
void log_tag(const char* format, ...) { (void)format; ++vf_tag; }
#endif
void log_flush(void) {}
void msg_status(const char* format, ...) { (void)format; }
void msg_info(const char* format, ...) { (void)format; }
void msg_progress(const char* format, ...) { (void)format; }
void msg_bar(const char* format, ...) { (void)format; }
void msg_verbose(const char* format, ...) { (void)format; }
void msg_flush(void) {}
