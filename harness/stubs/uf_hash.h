/*
 * uf_hash.h - memhash() as an uninterpreted, *injective* function of (kind, bytes, length): a table of the calls made so
 * far (keyed by hash kind, seed identity when UF_SEED_MATTERS, bytes, length); equal inputs get the stored digest, a new input gets a fresh nondeterministic digest that differs (in its first 8
 * bytes, so that reduced hash sizes stay injective too) from every digest handed out before and from the ZERO / INVALID
 * markers.  "The block hash is collision-free on the blocks of this stripe" is an explicit assumption of C01/C04/C05/C06/C19;
 * the real digests are checked for stability in C16.
 * Blocks are UFBS (<= 64) bytes; contents are compared word-wise (a byte-wise memcmp costs tens of thousands of unwindings).
 */
#ifndef UF_HASH_H
#define UF_HASH_H
#include "vf.h"
#include <string.h>

#ifndef UFBS
#define UFBS 64
#endif
#ifndef UFK
#define UFK 10
#endif
#define UFW (UFBS / 8)

struct uf_ent { unsigned kind; const void* seed; unsigned size; uint64_t w[UFW]; uint64_t d[2]; };
static struct uf_ent uf_tab[UFK];
static unsigned uf_n;

static inline void uf_load(uint64_t* w, const void* src, size_t size)
{
	unsigned i;
	const unsigned char* s = src;
	for (i = 0; i < UFW; ++i) {
		uint64_t v = 0; unsigned k;
		for (k = 0; k < 8; ++k) if (8 * i + k < size) v |= (uint64_t)s[8 * i + k] << (8 * k);
		w[i] = v;
	}
}
static inline void uf_digest_seed(unsigned kind, const void* seed, const void* src, size_t size, uint64_t* d)
{
	uint64_t w[UFW]; unsigned i, k; int found = -1;
	VF_ASSERT(size <= UFBS, "harness: hashed region within one block");
	uf_load(w, src, size);
	for (i = 0; i < UFK; ++i) {
		if (i < uf_n && uf_tab[i].kind == kind && uf_tab[i].seed == seed && uf_tab[i].size == size) {
			int same = 1;
			for (k = 0; k < UFW; ++k) same &= (uf_tab[i].w[k] == w[k]);
			if (same) found = (int)i;
		}
	}
	if (found >= 0) { d[0] = uf_tab[found].d[0]; d[1] = uf_tab[found].d[1]; return; }
	VF_ASSERT(uf_n < UFK, "harness: uninterpreted hash table large enough");
	d[0] = vf_in_u64(); d[1] = vf_in_u64();
	VF_ASSUME(d[0] != 0 && d[0] != ~(uint64_t)0);          /* not the INVALID (00..) / ZERO (ff..) markers */
	for (i = 0; i < UFK; ++i) if (i < uf_n) VF_ASSUME(uf_tab[i].d[0] != d[0]);   /* injective */
	uf_tab[uf_n].kind = kind; uf_tab[uf_n].seed = seed; uf_tab[uf_n].size = (unsigned)size;
	for (k = 0; k < UFW; ++k) uf_tab[uf_n].w[k] = w[k];
	uf_tab[uf_n].d[0] = d[0]; uf_tab[uf_n].d[1] = d[1];
	++uf_n;
}
static inline void uf_digest(unsigned kind, const void* src, size_t size, uint64_t* d) { uf_digest_seed(kind, (const void*)0, src, size, d); }
void memhash(unsigned kind, const unsigned char* seed, void* digest, const void* src, size_t size)
{
	uint64_t d[2];
#ifdef UF_SEED_MATTERS
	uf_digest_seed(kind, seed, src, size, d);
#else
	(void)seed;
	uf_digest(kind, src, size, d);
#endif
	memcpy(digest, d, 16);
}
#endif
