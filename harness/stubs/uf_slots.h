/*
 * uf_slots.h - memhash() as an uninterpreted, *injective* function of (kind, 64-bit token) for the abstract data plane
 * (block size 8), with CONCRETE table indices: every call site owns a slot (the harness maps the source buffer of a
 * call made by the real code to a slot; its own reference calls name their slot).  uf_hash.h appends at a symbolic index
 * (the number of distinct inputs so far), which makes every table access a symbolic-index update of an array of structs - the
 * dominating cost of the whole-function stripe harnesses.  Here only the `valid` bits and the contents are symbolic.
 * Equal (kind, token) => equal digest; different => first 8 digest bytes differ, and differ from the ZERO / INVALID markers.
 * A slot is filled at most once per run (asserted).
 */
#ifndef UF_SLOTS_H
#define UF_SLOTS_H
#include "vf.h"
#ifndef UFS_N
#error "define UFS_N (number of slots)"
#endif
struct ufs_ent { int valid; unsigned kind; uint64_t w; uint64_t d0, d1; };
static struct ufs_ent ufs[UFS_N];

static inline void ufs_digest(unsigned slot, unsigned kind, uint64_t w, uint64_t* d)
{
	unsigned i; int found = 0; uint64_t f0 = vf_in_u64(), f1 = vf_in_u64();
	VF_ASSERT(slot < UFS_N, "harness: hash slot in range");
	VF_ASSERT(!ufs[slot].valid, "harness: a hash slot is filled once");
	for (i = 0; i < UFS_N; ++i) if (ufs[i].valid && ufs[i].kind == kind && ufs[i].w == w) { found = 1; f0 = ufs[i].d0; f1 = ufs[i].d1; }
	if (!found) {
		VF_ASSUME(f0 != 0 && f0 != ~(uint64_t)0);
		for (i = 0; i < UFS_N; ++i) if (ufs[i].valid) VF_ASSUME(ufs[i].d0 != f0);
	}
	ufs[slot].valid = 1; ufs[slot].kind = kind; ufs[slot].w = w; ufs[slot].d0 = f0; ufs[slot].d1 = f1;
	d[0] = f0; d[1] = f1;
}
#endif
