#!/usr/bin/env python3
"""
asm2c - rewrite the single-instruction `asm volatile (...)` statements of raid/x86.c, raid/x86z.c (and the
crc32 ones of cmdline/util.h) into calls on a virtual SIMD register file (harness/include/simd_emu.h).
All C control flow, pointer arithmetic, loop bounds and table indices stay exactly as written.
Unknown mnemonics or operand shapes abort (the check fails closed).
"""
import re, sys

class AsmError(Exception):
    pass

REG = re.compile(r'^%%?([xy])mm(\d+)$')

def _split_ops(s):
    return [x.strip() for x in s.split(',')]

def translate_stmt(body, fname='?'):
    """body = text between 'asm volatile (' and the closing ');'"""
    m = re.match(r'\s*"([^"]*)"\s*(.*)$', body, re.S)
    if not m:
        raise AsmError('cannot parse asm statement: ' + body)
    tmpl = m.group(1).strip()
    rest = m.group(2)
    # operands: ':' outs ':' ins ':' clobbers
    parts = [p.strip() for p in rest.split(':')][1:] if rest.strip() else []
    outs = parts[0] if len(parts) > 0 else ''
    ins = parts[1] if len(parts) > 1 else ''
    memexpr = None
    for sec, cons in ((outs, '"=m"'), (ins, '"m"')):
        if sec:
            mm = re.match(r'^(\S+)\s*\((.*)\)$', sec, re.S)
            if not mm or mm.group(1) != cons:
                raise AsmError('unsupported operand constraint: ' + sec)
            if memexpr is not None:
                raise AsmError('more than one memory operand: ' + body)
            memexpr = mm.group(2).strip()
    if tmpl == '' or tmpl in ('sfence', 'vzeroupper'):
        return '((void)0)'
    mn, _, ops = tmpl.partition(' ')
    ops = _split_ops(ops)
    def operand(o):
        r = REG.match(o)
        if r:
            return ('reg', int(r.group(2)), 16 if r.group(1) == 'x' else 32)
        if o == '%0':
            if memexpr is None:
                raise AsmError('%0 without operand: ' + body)
            return ('mem', '&(' + memexpr + ')')
        if o.startswith('$'):
            return ('imm', int(o[1:], 0))
        raise AsmError('unsupported operand %r in %r' % (o, tmpl))
    O = [operand(o) for o in ops]
    avx = mn.startswith('v')
    base = mn[1:] if avx else mn
    W = 32 if avx else 16
    def src(o):
        """returns (prefix statements, register number)"""
        if o[0] == 'reg':
            return '', o[1]
        if o[0] == 'mem':
            return 'emu_load(EMU_TMP, %d, %s); ' % (W, o[1]), 'EMU_TMP'
        raise AsmError('bad source operand in ' + tmpl)
    if base in ('movdqa', 'movntdq'):
        if len(O) != 2: raise AsmError(tmpl)
        s, d = O
        if s[0] == 'mem' and d[0] == 'reg':
            return 'emu_load(%d, %d, %s)' % (d[1], W, s[1])
        if s[0] == 'reg' and d[0] == 'mem':
            return 'emu_store(%d, %d, %s)' % (s[1], W, d[1])
        if s[0] == 'reg' and d[0] == 'reg':
            return 'emu_mov(%d, %d, %d)' % (d[1], s[1], W)
        raise AsmError(tmpl)
    if base == 'broadcasti128':
        s, d = O
        if s[0] != 'mem' or d[0] != 'reg': raise AsmError(tmpl)
        return 'emu_broadcast128(%d, %s)' % (d[1], s[1])
    if base in ('pxor', 'pand', 'paddb', 'pcmpgtb', 'pshufb'):
        fn = {'pxor': 'emu_xor', 'pand': 'emu_and', 'paddb': 'emu_addb', 'pcmpgtb': 'emu_cmpgtb', 'pshufb': 'emu_shufb'}[base]
        if avx:
            if len(O) != 3: raise AsmError(tmpl)
            s2, s1, d = O
        else:
            if len(O) != 2: raise AsmError(tmpl)
            s2, d = O
            s1 = d
        if d[0] != 'reg' or s1[0] != 'reg': raise AsmError(tmpl)
        pre, r2 = src(s2)
        # semantic: d = s1 OP s2 ; for cmpgtb d = (s1 > s2) ; for shufb d = shuffle(table = s1, index = s2)
        return '%s%s(%d, %d, %s, %d)' % (pre, fn, d[1], s1[1], r2, W)
    if base in ('psrlw', 'psllw'):
        fn = 'emu_srlw' if base == 'psrlw' else 'emu_sllw'
        if avx:
            imm, s1, d = O
        else:
            imm, d = O
            s1 = d
        if imm[0] != 'imm' or d[0] != 'reg' or s1[0] != 'reg': raise AsmError(tmpl)
        return '%s(%d, %d, %d, %d)' % (fn, d[1], s1[1], imm[1], W)
    raise AsmError('unknown mnemonic %r in %s' % (mn, fname))

def translate(text, fname='x86.c'):
    out = []
    i = 0
    n = 0
    pat = re.compile(r'asm\s+volatile\s*\(')
    while True:
        m = pat.search(text, i)
        if not m:
            out.append(text[i:]); break
        out.append(text[i:m.start()])
        # find the matching parenthesis
        j = m.end(); depth = 1; instr = False
        while depth:
            c = text[j]
            if c == '"' and text[j - 1] != '\\': instr = not instr
            elif not instr:
                if c == '(': depth += 1
                elif c == ')': depth -= 1
            j += 1
        body = text[m.end():j - 1]
        out.append(translate_stmt(body, fname))
        n += 1
        i = j
    res = '#include "simd_emu.h"\n' + ''.join(out)
    if 'asm' in re.sub(r'/\*.*?\*/', '', res, flags=re.S).replace('HAVE_ASSEMBLY', ''):
        # any asm left over (different spelling) -> fail closed
        left = [l for l in res.splitlines() if re.search(r'\b(__)?asm(__)?\b', l)]
        if left:
            raise AsmError('untranslated asm left in %s: %s' % (fname, left[:3]))
    return res, n

CRC_PAT = re.compile(r'asm\s*\(\s*"crc32([bql]) %1, %0\\n"\s*:\s*"\+r"\s*\((\w+)\)\s*:\s*"m"\s*\((.*?)\)\s*\)\s*;')
def translate_crc(text):
    """cmdline/util.h: asm ("crc32b %1, %0\\n" : "+r" (crc) : "m" (c));  ->  crc = emu_crc32b(crc, c);"""
    out, n = CRC_PAT.subn(lambda m: '%s = emu_crc32%s(%s, %s);' % (m.group(2), m.group(1), m.group(2), m.group(3)), text)
    if re.search(r'\basm\b', re.sub(r'/\*.*?\*/', '', out, flags=re.S)):
        raise AsmError('untranslated asm left in util.h')
    if n == 0:
        raise AsmError('no crc32 asm statement found in util.h (shape changed?)')
    return '#include "crc_emu.h"\n' + out

def translate_x86(text):
    return translate(text, 'x86.c')[0]

if __name__ == '__main__':
    t, n = translate(open(sys.argv[1]).read(), sys.argv[1])
    sys.stderr.write('%d asm statements translated\n' % n)
    sys.stdout.write(t)
