"""GF(2^8) with polynomial 0x11d and the generator matrices of SnapRAID, computed from their *definition*
(raid/mktables.c comments / raid.h documentation), independently of raid/tables.c."""
def mul(a, b):
    r = 0
    while b:
        if b & 1:
            r ^= a
        a <<= 1
        if a & 0x100:
            a ^= 0x11d
        b >>= 1
    return r
def power(a, n):
    r = 1
    for _ in range(n):
        r = mul(r, a)
    return r
INV = [0] * 256
for a in range(1, 256):
    for b in range(1, 256):
        if mul(a, b) == 1:
            INV[a] = b
def inv(a):
    assert a != 0
    return INV[a]
NDISK = 251
def cauchy():
    """extended Cauchy matrix: row0 = 1, row1 = 2^i (x_i = 2^-i, y_0 = 0), row j>=2: 1/(x_i + 2^(j-1)), each row normalised by its first element"""
    M = [[1] * NDISK, [power(2, i) for i in range(NDISK)]]
    for j in range(2, 6):
        y = power(2, j - 1)
        row = [inv(inv(power(2, i)) ^ y) for i in range(NDISK)]
        f = inv(row[0])
        M.append([mul(v, f) for v in row])
    return M
def vandermonde():
    """power matrix used by the alternate 3-parity mode: 1, 2^i, 2^-i"""
    return [[1] * NDISK, [power(2, i) for i in range(NDISK)], [power(0x8e, i) for i in range(NDISK)]]
assert mul(2, 0x8e) == 1
