#!/usr/bin/env python3
"""
vf.py - driver for solver-based checking of /repo (snapraid) with CBMC.

A *Job* is one solver query (plus its reachability twin): real /repo units
compiled with goto-cc + a harness, handed to cbmc with a stated unwinding bound.
UNSAT (all properties SUCCESS) = the assertion holds for every input within the
bound; SAT = counterexample, which is extracted from the trace as an input tape
and replayed against a native gcc+ASan build of the same /repo sources.
"""
import os, sys, json, re, time, shutil, subprocess, threading, hashlib, resource, signal, tempfile, atexit

VERIF = os.path.dirname(os.path.dirname(os.path.abspath(__file__)))
REPO = os.environ.get('VERIF_REPO', '/repo')
INC = ['-DHAVE_CONFIG_H', '-I' + REPO, '-I' + REPO + '/cmdline', '-I' + REPO + '/tommyds', '-I' + REPO + '/raid']
HINC = ['-I' + VERIF + '/harness/include', '-I' + VERIF + '/harness']
PATHMAX64 = ('-include', VERIF + '/harness/include/vf_pathmax.h')
NCPU = int(os.environ.get('VERIF_JOBS', str(os.cpu_count() or 4)))
MEM_TOTAL_GB = float(os.environ.get('VERIF_MEM_GB', '52'))

_scratch = None
def scratch():
    global _scratch
    if _scratch is None:
        base = os.environ.get('VERIF_SCRATCH')
        if base:
            os.makedirs(base, exist_ok=True)
            _scratch = tempfile.mkdtemp(prefix='run-', dir=base)
        else:
            _scratch = tempfile.mkdtemp(prefix='verif-', dir='/var/tmp')
        os.environ['TMPDIR'] = _scratch
        if not os.environ.get('VERIF_KEEP'):
            atexit.register(lambda: shutil.rmtree(_scratch, ignore_errors=True))
    return _scratch

def sh(cmd, timeout=None, mem_gb=None, cwd=None, env=None, stdout=subprocess.PIPE, stderr=subprocess.STDOUT):
    """run a command under a memory and time limit; returns (rc, output, wall, maxrss_kb, status)"""
    def pre():
        os.setsid()
        if mem_gb:
            b = int(mem_gb * (1 << 30))
            resource.setrlimit(resource.RLIMIT_AS, (b, b))
    t0 = time.time()
    e = dict(os.environ)
    if env:
        e.update(env)
    p = subprocess.Popen(cmd, stdout=stdout, stderr=stderr, cwd=cwd, env=e, preexec_fn=pre)
    status = 'ok'
    try:
        out, _ = p.communicate(timeout=timeout)
    except subprocess.TimeoutExpired:
        try:
            os.killpg(p.pid, signal.SIGKILL)
        except ProcessLookupError:
            pass
        out, _ = p.communicate()
        status = 'timeout'
    wall = time.time() - t0
    ru = resource.getrusage(resource.RUSAGE_CHILDREN)
    return p.returncode, (out.decode('utf-8', 'replace') if out else ''), wall, ru.ru_maxrss, status

class BuildError(Exception):
    pass

_build_lock = threading.Lock()
_unit_cache = {}
_unit_locks = {}

def _h(*a):
    return hashlib.sha1(json.dumps(a, sort_keys=True).encode()).hexdigest()[:12]

class Unit:
    """a translation unit of /repo (or a file generated from one)"""
    def __init__(self, path, remove=(), defines=(), transform=None, native_path=None, flags=(), export_local=True, native=True, companions=()):
        self.companions = tuple(companions)  # (repo-relative header, transform) written next to the generated unit so that #include "x.h" picks them up
        self.path = path              # relative to REPO, or absolute
        self.remove = tuple(remove)   # function bodies removed (replaced by harness stubs)
        self.defines = tuple(defines)
        self.transform = transform    # callable(src_text) -> text, e.g. the asm->C translator
        self.native_path = native_path
        self.flags = tuple(flags)
        self.export_local = export_local
        self.native = native          # link into the native replay build
    def abspath(self):
        return self.path if os.path.isabs(self.path) else os.path.join(REPO, self.path)
    def key(self):
        return _h(self.path, self.remove, self.defines, self.transform.__name__ if self.transform else None, self.flags, self.export_local, [c[0] for c in self.companions])
    def build(self):
        k = self.key()
        with _build_lock:
            lk = _unit_locks.setdefault(k, threading.Lock())
        with lk:
            if k in _unit_cache:
                return _unit_cache[k]
            d = os.path.join(scratch(), 'units')
            os.makedirs(d, exist_ok=True)
            stem = os.path.basename(self.path).replace('.', '_')
            src = self.abspath()
            if self.transform or self.companions:
                text = open(src, encoding='utf-8', errors='replace').read()
                if self.transform:
                    text = self.transform(text)
                # keep the generated file next to the original name so that file-local symbol names match
                gd = os.path.join(d, 'gen-' + k)
                os.makedirs(gd, exist_ok=True)
                src2 = os.path.join(gd, os.path.basename(self.path))
                open(src2, 'w').write(text)
                for rel, tr in self.companions:
                    ctext = tr(open(os.path.join(REPO, rel), encoding='utf-8', errors='replace').read())
                    open(os.path.join(gd, os.path.basename(rel)), 'w').write(ctext)
                extra_i = ['-I' + os.path.dirname(src)]
                src = src2
            else:
                extra_i = []
            out = os.path.join(d, '%s-%s.gb' % (stem, k))
            cmd = ['goto-cc'] + INC + HINC + extra_i + ['-D' + x for x in self.defines] + list(self.flags)
            if self.export_local:
                cmd += ['--export-file-local-symbols']
            cmd += ['-c', src, '-o', out]
            rc, o, w, _, st = sh(cmd, timeout=600)
            if rc != 0:
                raise BuildError('goto-cc failed for %s:\n%s' % (self.path, o[-3000:]))
            if self.remove:
                out2 = out[:-3] + '-rm.gb'
                cmd = ['goto-instrument']
                for f in self.remove:
                    cmd += ['--remove-function-body', f]
                cmd += [out, out2]
                rc, o, w, _, st = sh(cmd, timeout=600)
                if rc != 0:
                    raise BuildError('goto-instrument failed for %s:\n%s' % (self.path, o[-3000:]))
                out = out2
            _unit_cache[k] = out
            return out

class Job:
    def __init__(self, name, harness, units=(), entry='harness', unwind=None, unwindset=(), defines=(),
                 flags=(), kind='obligation', timeout=600, mem_gb=6, decisive=None, sample=None, nobody_ok=(),
                 native=True, native_globalize=(), group=None, checks=True, object_bits=None, cost=1,
                 expect_fail_desc=None, harness_text=None, funcs=(), nowitness=False, native_libs=('-lblkid', '-lpthread'),
                 solver='kissat', native_defines=(), cflags=(), finding_key=None):
        self.finding_key = finding_key
        self.cflags = list(cflags)
        self.name = name
        self.harness = [harness] if isinstance(harness, str) else list(harness)  # paths relative to VERIF/harness or absolute
        self.harness_text = harness_text  # dict filename -> generated text (written to scratch)
        self.units = list(units)
        self.entry = entry
        self.unwind = unwind
        self.unwindset = list(unwindset)
        self.defines = list(defines)
        self.flags = list(flags)
        self.kind = kind              # 'obligation' (must be UNSAT) or 'negctl' (must be SAT, deliberately wrong oracle)
        self.timeout = timeout
        self.mem_gb = mem_gb
        self.nobody_ok = tuple(nobody_ok)
        self.decisive = decisive      # regex on property description; None = every property decides
        self.sample = sample or {}
        self.native = native
        self.native_globalize = list(native_globalize)
        self.group = group or name
        self.checks = checks          # CBMC standard checks on (bounds, pointer, ...) plus overflow checks
        self.object_bits = object_bits
        self.cost = cost
        self.funcs = list(funcs)      # functions of /repo this job encodes (for evidence)
        self.nowitness = nowitness
        self.native_libs = list(native_libs)
        self.solver = solver
        self.native_defines = list(native_defines)
        self.result = None

    # ---- building -------------------------------------------------------
    def _harness_paths(self, d):
        ps = []
        for h in self.harness:
            ps.append(h if os.path.isabs(h) else os.path.join(VERIF, 'harness', h))
        if self.harness_text:
            for fn, text in self.harness_text.items():
                p = os.path.join(d, fn)
                open(p, 'w').write(text)
                ps.append(p)
        return ps

    def build(self, witness=False):
        d = os.path.join(scratch(), 'jobs', re.sub(r'[^A-Za-z0-9_.-]', '_', self.name) + ('-w' if witness else ''))
        os.makedirs(d, exist_ok=True)
        gbs = [u.build() for u in self.units]
        hs = []
        for i, p in enumerate(self._harness_paths(d)):
            if not p.endswith('.c'):
                continue
            o = os.path.join(d, 'h%d.gb' % i)
            cmd = ['goto-cc'] + INC + HINC + ['-I' + d, '-Werror=implicit-function-declaration'] + self.cflags + ['-D' + x for x in self.defines]
            if witness:
                cmd += ['-DWITNESS']
            cmd += ['--export-file-local-symbols', '-c', p, '-o', o]
            rc, out, w, _, st = sh(cmd, timeout=600)
            if rc != 0:
                raise BuildError('goto-cc failed for harness %s:\n%s' % (p, out[-4000:]))
            hs.append(o)
        allgb = os.path.join(d, 'all.gb')
        rc, out, w, _, st = sh(['goto-cc'] + hs + gbs + ['-o', allgb], timeout=600)
        if rc != 0:
            raise BuildError('goto-cc link failed for %s:\n%s' % (self.name, out[-4000:]))
        return d, allgb

    def cbmc_cmd(self, allgb, trace=False, witness=False, prop=None):
        cmd = ['cbmc', allgb, '--function', self.entry, '--drop-unused-functions', '--json-ui', '--verbosity', '8']
        if self.unwind is not None:
            cmd += ['--unwind', str(self.unwind)]
        for u in self.unwindset:
            cmd += ['--unwindset', u]
        cmd += ['--unwinding-assertions']
        cmd += ['--object-bits', str(self.object_bits or 12)]
        if witness:
            cmd += ['--no-standard-checks', '--stop-on-fail']
        elif self.checks:
            cmd += ['--pointer-overflow-check', '--undefined-shift-check', '--signed-overflow-check', '--no-malloc-may-fail']
        else:
            cmd += ['--no-standard-checks', '--no-malloc-may-fail']
        if witness and '--no-malloc-may-fail' not in cmd:
            cmd += ['--no-malloc-may-fail']
        if self.solver == 'kissat':
            cmd += ['--external-sat-solver', 'kissat']
        elif self.solver == 'cadical':
            cmd += ['--sat-solver', 'cadical']
        elif self.solver == 'cvc5':
            cmd += ['--cvc5', '--slice-formula']
        elif self.solver == 'z3':
            cmd += ['--z3']
        cmd += self.flags
        if trace:
            cmd += ['--trace', '--stop-on-fail']
            if prop:
                cmd += ['--property', prop]
        return cmd

def parse_cbmc_json(out):
    """returns (verdict, props, msgs) ; verdict in PASS/FAIL/ERROR"""
    try:
        start = out.index('[')
        data = json.loads(out[start:])
    except Exception:
        # truncated json (timeout/oom): salvage nothing
        return 'ERROR', [], [out[-2000:]]
    props = []
    if not isinstance(data, list):
        return 'ERROR', [], [out[-2000:]]
    msgs = []
    cprover = None
    stats = {}
    for m in data:
        if 'result' in m:
            for r in m['result']:
                props.append(r)
        if 'property' in m and 'status' in m and 'messageText' not in m:
            # --stop-on-fail format: a single failed property with its trace
            r = dict(m)
            r['status'] = 'FAILURE' if m['status'] in ('failed', 'FAILURE') else m['status']
            props.append(r)
        if 'cProverStatus' in m:
            cprover = m['cProverStatus']
        if 'messageText' in m:
            t = m['messageText']
            if m.get('messageType') in ('ERROR',):
                msgs.append(t)
            mm = re.search(r'(\d+) variables, (\d+) clauses', t)
            if mm:
                stats['variables'] = stats.get('variables', 0) + int(mm.group(1)); stats['clauses'] = stats.get('clauses', 0) + int(mm.group(2))
            mm = re.search(r'Generated (\d+) VCC\(s\), (\d+) remaining', t)
            if mm:
                stats['vccs'] = int(mm.group(1)); stats['vccs_remaining'] = int(mm.group(2))
            mm = re.search(r'size of program expression: (\d+) steps', t)
            if mm:
                stats['steps'] = int(mm.group(1))
            mm = re.search(r'Runtime Symex: ([\d.]+)s', t)
            if mm: stats['symex_s'] = float(mm.group(1))
            mm = re.search(r'Runtime Solver: ([\d.]+)s', t)
            if mm: stats['solver_s'] = stats.get('solver_s', 0) + float(mm.group(1))
            mm = re.search(r'Runtime decision procedure: ([\d.]+)s', t)
            if mm: stats['decision_s'] = stats.get('decision_s', 0) + float(mm.group(1))
    if cprover == 'success':
        v = 'PASS'
    elif cprover == 'failure':
        v = 'FAIL'
    else:
        v = 'ERROR'
    return v, props, msgs, stats

def flatten_value(v, acc):
    if v is None:
        return
    if 'elements' in v:
        for e in sorted(v['elements'], key=lambda e: e['index']):
            flatten_value(e['value'], acc)
    elif 'members' in v:
        for m in v['members']:
            flatten_value(m['value'], acc)
    elif 'binary' in v:
        acc.append(int(v['binary'], 2))
    elif v.get('name') == 'pointer':
        acc.append(0)
    else:
        d = v.get('data', '0')
        try:
            acc.append(int(re.sub(r'[uUlL]+$', '', d)) & 0xFFFFFFFFFFFFFFFF)
        except Exception:
            acc.append(0)

def extract_tape(trace):
    """input tape = in execution order, the return value of every vf_in_*() call"""
    tape = []
    pend = None
    for s in trace:
        if s.get('stepType') != 'assignment':
            continue
        lhs = s.get('lhs', '')
        fn = s.get('sourceLocation', {}).get('function', '')
        if not fn.startswith('vf_in_'):
            continue
        m = re.match(r'goto_symex\$\$return_value\$\$(?:__CPROVER_file_local_\w+?_[ch]_)?(vf_in_[a-z0-9]+)(.*)$', lhs)
        if not m:
            continue
        rest = m.group(2)
        if rest == '':
            flatten_value(s.get('value'), tape)
        elif re.match(r'^\.\w+$', rest) and 'elements' in (s.get('value') or {}):
            flatten_value(s.get('value'), tape)
        # element-wise repeats ([kl]) are ignored
    return tape

_native_lock = threading.Lock()
_native_cache = {}

def native_unit(u):
    """compile a /repo unit natively (gcc -O0 + ASan), statics made global so harnesses can call them"""
    src = u.native_path or u.abspath()
    k = _h('native', src, u.defines)
    with _native_lock:
        if k in _native_cache:
            return _native_cache[k]
        d = os.path.join(scratch(), 'native')
        os.makedirs(d, exist_ok=True)
        o = os.path.join(d, os.path.basename(src).replace('.', '_') + '-' + k + '.o')
        cmd = ['gcc', '-O0', '-g', '-fno-inline', '-ffunction-sections', '-fdata-sections', '-fsanitize=address', '-fno-omit-frame-pointer', '-w', '-mavx2', '-msse4.2'] + INC + ['-D' + x for x in u.defines] + ['-c', src, '-o', o]
        rc, out, w, _, st = sh(cmd, timeout=600)
        if rc != 0:
            raise BuildError('native gcc failed for %s:\n%s' % (src, out[-3000:]))
        # make every static function reachable by name
        rc, out, w, _, st = sh(['nm', o])
        locs = [l.split()[2] for l in out.splitlines() if len(l.split()) == 3 and l.split()[1] in ('t',)]
        if locs:
            lst = o + '.syms'
            open(lst, 'w').write('\n'.join(sorted(set(locs))) + '\n')
            sh(['objcopy', '--globalize-symbols=' + lst, o])
        _native_cache[k] = o
        return o

def native_replay(job, d, tape, tape_path):
    """build the harness natively against the real /repo objects and run the tape; returns (status, output)"""
    try:
        objs = [native_unit(u) for u in job.units if u.native]
        hps = job._harness_paths(d)
        # map CBMC's exported file-local names to the real static names
        defs = set()
        for p in hps:
            for m in re.finditer(r'__CPROVER_file_local_(\w+?)_([ch])_(\w+)', open(p).read()):
                defs.add('-D%s=%s' % (m.group(0), m.group(3)))
        exe = os.path.join(d, 'replay.exe')
        cmd = ['gcc', '-O0', '-g', '-fsanitize=address', '-fno-omit-frame-pointer', '-w', '-mavx2', '-msse4.2', '-DVF_NATIVE=1', '-DVF_HARNESS=' + job.entry] + INC + HINC
        cmd += ['-I' + d] + ['-D' + x for x in job.defines] + ['-D' + x for x in job.native_defines] + sorted(defs)
        cmd += [p for p in hps if p.endswith('.c')] + [os.path.join(VERIF, 'harness/include/vf_native.c')] + objs
        cmd += ['-Wl,--allow-multiple-definition', '-Wl,--gc-sections', '-Wl,--unresolved-symbols=ignore-all', '-o', exe] + job.native_libs
        rc, out, w, _, st = sh(cmd, timeout=600)
        if rc != 0:
            return 'build-failed', out[-3000:]
        rc, out, w, _, st = sh([exe, tape_path], timeout=120, env={'ASAN_OPTIONS': 'exitcode=99:detect_leaks=0:abort_on_error=0'})
        if st == 'timeout':
            return 'timeout', out[-2000:]
        if rc == 1 and 'VF_REPLAY assertion violated' in out:
            return 'reproduced', out[-2000:]
        if rc == 99 or 'AddressSanitizer' in out:
            return 'reproduced-asan', out[-3000:]
        if rc == 0:
            return 'not-reproduced', out[-2000:]
        if rc == 77:
            return 'assumption-not-met', out[-2000:]
        if rc < 0:
            return 'reproduced-crash(signal %d)' % (-rc), out[-2000:]
        return 'exit-%d' % rc, out[-2000:]
    except BuildError as e:
        return 'build-failed', str(e)

def run_job(job, log):
    """execute one job: build, witness, solve, (trace, replay). fills job.result"""
    res = {'name': job.name, 'kind': job.kind, 'sample': job.sample, 'status': None}
    job.result = res
    t0 = time.time()
    try:
        d, allgb = job.build()
    except BuildError as e:
        res['status'] = 'broken'; res['detail'] = str(e)
        log('[%s] BUILD BROKEN: %s' % (job.name, str(e)[-1500:]))
        return res
    res['dir'] = d
    if os.environ.get('VERIF_PROF'):
        # development aid (never used by a registered command): symbolic execution only, report where it stalls
        sec = int(os.environ['VERIF_PROF'])
        cmd = [c for c in job.cbmc_cmd(allgb) if c != '--json-ui']
        cmd[cmd.index('--verbosity') + 1] = '10'
        for sv in (['--external-sat-solver', 'kissat'], ['--cvc5', '--slice-formula'], ['--z3']):
            if sv[0] in cmd:
                i = cmd.index(sv[0]); del cmd[i:i + len(sv)]
        cmd += ['--dimacs', '--outfile', '/dev/null']
        pr = subprocess.Popen(['timeout', str(sec)] + cmd, stdout=subprocess.PIPE, stderr=subprocess.STDOUT, text=True, errors='replace')
        last = time.time(); prev = ''; stalls = []; n = 0
        for line in pr.stdout:
            now = time.time(); n += 1
            if now - last >= 2.0:
                stalls.append((now - last, prev.strip()[:200]))
            last = now; prev = line
            if 'Generated' in line or 'size of program' in line: stalls.append((0, line.strip()))
        pr.wait()
        log('[%s] PROF: %d lines in %ds, rc=%s, last: %s' % (job.name, n, time.time() - t0, pr.returncode, prev.strip()[:200]))
        for dt, l in stalls: log('    stall %5.1fs after: %s' % (dt, l))
        res['status'] = 'undecided'; res['detail'] = 'profiling run'
        return res
    # ---------------- main query
    cmd = job.cbmc_cmd(allgb)
    res['checker_cmd'] = ' '.join(cmd).replace(scratch(), '$SCRATCH')
    rc, out, wall, rss, st = sh(cmd, timeout=job.timeout, mem_gb=job.mem_gb, stderr=subprocess.DEVNULL)
    res['wall_s'] = round(wall, 2)
    if st == 'timeout':
        res['status'] = 'undecided'; res['detail'] = 'timeout after %ds' % job.timeout
        log('[%s] UNDECIDED (timeout %ds)' % (job.name, job.timeout))
        return res
    parsed = parse_cbmc_json(out)
    if len(parsed) == 3 or parsed[0] == 'ERROR':
        msgs = parsed[2]
        res['status'] = 'undecided' if ('std::bad_alloc' in out or 'Out of memory' in out or 'external SAT solver has provided an unexpected response' in out or rc in (-9, -6, 134, 137)) else 'broken'
        res['detail'] = 'cbmc rc=%s: %s' % (rc, ' | '.join(str(m) for m in msgs)[-1500:])
        log('[%s] %s: %s' % (job.name, res['status'].upper(), res['detail'][-600:]))
        return res
    verdict, props, msgs, stats = parsed
    res['stats'] = stats
    res['n_properties'] = len(props)
    failing = [p for p in props if p['status'] == 'FAILURE']
    def desc(p):
        return p.get('property', '') + ': ' + p.get('description', '')
    # standard-level UB that no sanitizer can confirm (forming / comparing an out-of-bounds pointer): reported separately, never a verdict
    ubrx = re.compile(r'\.pointer_arithmetic\.|\.pointer_relation\.|pointer relation:|pointer arithmetic:')
    ub = [p for p in failing if ubrx.search(desc(p))]
    failing = [p for p in failing if not ubrx.search(desc(p))]
    res['ub_reports'] = [desc(p) for p in ub][:20]
    wit = [p for p in failing if 'VF_WITNESS' in p.get('description', '')]
    failing = [p for p in failing if 'VF_WITNESS' not in p.get('description', '')]
    # a reachable call of a function without a body returns an unconstrained value and has no side effects: the harness is
    # incomplete (never a verdict about the code) unless the job lists the callee as deliberately left open
    nobody = sorted(set(p.get('property', '').split('.no-body.')[1] for p in failing if '.no-body.' in p.get('property', '')))
    failing = [p for p in failing if '.no-body.' not in p.get('property', '')]
    res['bodyless_callees'] = nobody
    missing = [c for c in nobody if c not in job.nobody_ok]
    if missing:
        res['status'] = 'broken'; res['detail'] = 'reachable call of a function without a body (add a stub or list it in nobody_ok): ' + ', '.join(missing)
        log('[%s] BROKEN: %s' % (job.name, res['detail']))
        return res
    if job.decisive:
        rx = re.compile(job.decisive)
        ignored = [p for p in failing if not rx.search(desc(p))]
        failing = [p for p in failing if rx.search(desc(p))]
        res['ignored_failures'] = [desc(p) for p in ignored][:20]
    has_wit = any('VF_WITNESS' in p.get('description', '') for p in props)
    unwind_fail = [p for p in failing if 'unwinding assertion' in p.get('description', '')]
    failing = [p for p in failing if 'unwinding assertion' not in p.get('description', '')]
    def rank(p):
        d = desc(p)
        if 'pointer_dereference' in d or 'array_bounds' in d or 'dereference failure' in d: return 0
        if 'VF:' in d: return 1
        return 2
    failing.sort(key=rank)
    res['failing'] = [desc(p) for p in failing + unwind_fail][:20]

    def get_trace_and_replay(p0):
        cmd2 = job.cbmc_cmd(allgb, trace=True, prop=p0['property'])
        rc2, out2, wall2, rss2, st2 = sh(cmd2, timeout=job.timeout, mem_gb=job.mem_gb, stderr=subprocess.DEVNULL)
        tape = None
        if st2 == 'ok':
            pr = parse_cbmc_json(out2)
            if len(pr) == 4:
                for p in pr[1]:
                    if 'trace' in p:
                        tape = extract_tape(p['trace']); break
        res['tape'] = tape
        res['cex_property'] = desc(p0)
        if tape is not None and job.native:
            tp = os.path.join(d, 'tape.txt')
            open(tp, 'w').write('\n'.join(str(x) for x in tape) + '\n')
            rs, ro = native_replay(job, d, tape, tp)
            res['replay'] = rs; res['replay_out'] = ro[-1500:]

    if job.kind == 'known':
        # witness of a defect listed in known_findings.txt: the harness is restricted to the listed failing region
        if not failing:
            res['status'] = 'known-absent'
            log('[%s] listed finding no longer reproduces (UNSAT on its region)' % job.name)
            return res
        res['status'] = 'known-present'
        if job.native:
            get_trace_and_replay(failing[0])
        log('[%s] known finding still present (%.1fs)%s' % (job.name, wall, (' replay=' + str(res.get('replay'))) if 'replay' in res else ''))
        return res
    if job.kind == 'negctl':
        if not failing:
            res['status'] = 'broken'; res['detail'] = 'negative control came back UNSAT: harness cannot see a wrong oracle'
            log('[%s] BROKEN: negative control passed' % job.name)
            return res
        res['status'] = 'negctl-ok'
        if job.native:
            vfp = [p for p in failing if 'VF:' in desc(p)] or failing
            get_trace_and_replay(vfp[0])
        log('[%s] negctl SAT as expected (%.1fs)%s' % (job.name, wall, (' replay=' + str(res.get('replay'))) if 'replay' in res else ''))
        return res
    if failing:
        get_trace_and_replay(failing[0])
        res['status'] = 'cex'
        log('[%s] COUNTEREXAMPLE %s replay=%s' % (job.name, res['cex_property'], res.get('replay')))
        return res
    if unwind_fail:
        # a loop runs past the stated bound: either the bound is too small (machinery broken) or the code loops on some input;
        # the latter shows natively as a crash / sanitizer report / time-out
        if job.native:
            get_trace_and_replay(unwind_fail[0])
            if str(res.get('replay', '')).startswith(('reproduced', 'timeout')):
                res['status'] = 'cex'
                log('[%s] COUNTEREXAMPLE (loop beyond bound) %s replay=%s' % (job.name, res['cex_property'], res.get('replay')))
                return res
        res['status'] = 'broken'; res['detail'] = 'unwinding assertion failed (bound too small): ' + unwind_fail[0]['property'] + ' replay=' + str(res.get('replay'))
        log('[%s] BROKEN: %s' % (job.name, res['detail']))
        return res
    # ---------------- UNSAT for every property; the witness assert(0) must have been reported violated in the same run
    res['status'] = 'pass'
    if not job.nowitness:
        if not has_wit:
            res['witness'] = 'missing'
            res['status'] = 'broken'; res['detail'] = 'harness has no VF_WITNESS()'
        elif wit:
            res['witness'] = 'reachable'
        else:
            res['witness'] = 'UNREACHABLE'
            res['status'] = 'broken'; res['detail'] = 'end of harness not reachable (vacuous: assumptions unsatisfiable or harness cut short)'
    log('[%s] %s  %.1fs (symex %.1fs, solver %.1fs, %s props, %s steps) witness=%s' % (
        job.name, res['status'].upper(), wall, stats.get('symex_s', 0), stats.get('solver_s', stats.get('decision_s', 0)),
        len(props), stats.get('steps', '?'), res.get('witness')))
    return res

def run_jobs(jobs, log):
    """schedule jobs on all cores, respecting the memory budget"""
    pending = sorted(jobs, key=lambda j: -j.cost)
    lock = threading.Condition()
    state = {'mem': 0.0, 'running': 0}
    threads = []
    def worker(j):
        try:
            run_job(j, log)
        except Exception as e:
            import traceback
            j.result = {'name': j.name, 'kind': j.kind, 'sample': j.sample, 'status': 'broken', 'detail': 'driver exception: ' + traceback.format_exc()[-1500:]}
            log('[%s] DRIVER EXCEPTION %s' % (j.name, e))
        finally:
            with lock:
                state['mem'] -= j.mem_gb / 2.0; state['running'] -= 1
                lock.notify_all()
    with lock:
        while pending:
            started = False
            for j in list(pending):
                if state['running'] < NCPU and (state['mem'] + j.mem_gb / 2.0 <= MEM_TOTAL_GB or state['running'] == 0):
                    pending.remove(j)
                    state['mem'] += j.mem_gb / 2.0; state['running'] += 1
                    t = threading.Thread(target=worker, args=(j,)); t.start(); threads.append(t)
                    started = True
                    break
            if not started:
                lock.wait()
    for t in threads:
        t.join()

# ------------------------------------------------------------------ findings
def load_known_findings():
    p = os.path.join(VERIF, 'known_findings.txt')
    kf = []
    if os.path.exists(p):
        for l in open(p):
            l = l.strip()
            if not l or l.startswith('#'):
                continue
            if l.startswith('fixed:'):
                continue
            m = re.match(r'finding:\s+property=(\S+)\s+key=(\S+)\s+(.*)$', l)
            if m:
                kf.append({'property': m.group(1), 'key': m.group(2), 'text': m.group(3)})
    return kf

def repo_source_digest(units):
    h = hashlib.sha1()
    for u in units:
        try:
            h.update(open(u.abspath(), 'rb').read())
        except Exception:
            pass
    return h.hexdigest()[:16]

def finish(prop, tier, seed, jobs, t0, level='model_checking', assumptions=(), trusted=(), bounds=None, outside=(), extra=None, known_keys=None, write=True):
    """write evidence, print verdict lines, return exit code.
    known_keys: dict job.name -> finding key; a counterexample on a job whose name is listed there and which is
    listed in known_findings.txt is printed as KNOWN-FINDING and does not fail the check."""
    kf = {k['key']: k for k in load_known_findings() if k['property'] == prop}
    obligations = [j for j in jobs if j.kind == 'obligation']
    negs = [j for j in jobs if j.kind == 'negctl']
    discharged = [j for j in obligations if j.result and j.result['status'] == 'pass']
    undecided = [j for j in jobs if j.result and j.result['status'] == 'undecided']
    broken = [j for j in jobs if (not j.result) or j.result['status'] == 'broken']
    knownjobs = [j for j in jobs if j.kind == 'known']
    cex = [j for j in obligations if j.result and j.result['status'] == 'cex']
    viol = []
    known_hit = []
    disagreements = []
    os.makedirs(os.path.join(VERIF, 'replay'), exist_ok=True)
    n = 0
    for j in cex:
        r = j.result
        key = getattr(j, 'finding_key', None)
        rp = os.path.join(VERIF, 'replay', '%s-%s.json' % (prop, re.sub(r'[^A-Za-z0-9_.-]', '_', j.name)))
        json.dump({'property': prop, 'job': j.name, 'sample': j.sample, 'failed': r.get('cex_property'), 'tape': r.get('tape'),
                   'native_replay': r.get('replay'), 'native_output': r.get('replay_out'), 'checker_cmd': r.get('checker_cmd'),
                   'harness': j.harness, 'entry': j.entry, 'defines': j.defines}, open(rp, 'w'), indent=1)
        r['replay_file'] = rp
        if key and key in kf:
            known_hit.append((j, kf[key]))
            continue
        rs = r.get('replay')
        if j.native and rs is not None and not (rs.startswith('reproduced') or rs.startswith('timeout')):
            # does not reproduce natively: engine / model disagreement, neither pass nor violation
            disagreements.append(j)
            continue
        viol.append(j)
    # a witness job of a finding that is NOT (or no longer) listed in known_findings.txt is an ordinary violation
    for j in knownjobs:
        if j.result and j.result.get('status') == 'known-present' and j.finding_key not in kf:
            rp = os.path.join(VERIF, 'replay', '%s-%s.json' % (prop, re.sub(r'[^A-Za-z0-9_.-]', '_', j.name)))
            json.dump({'property': prop, 'job': j.name, 'sample': j.sample, 'failed': (j.result.get('failing') or [None])[0], 'checker_cmd': j.result.get('checker_cmd'),
                       'harness': j.harness, 'entry': j.entry, 'defines': j.defines}, open(rp, 'w'), indent=1)
            j.result['replay_file'] = rp; j.result['cex_property'] = (j.result.get('failing') or [None])[0]
            viol.append(j)
    traces_validated = sum(1 for j in jobs if j.result and str(j.result.get('replay', '')) == 'reproduced')
    wall = time.time() - t0
    funcs = sorted(set(f for j in jobs for f in j.funcs))
    samples = []
    for j in jobs[:6]:
        if j.result:
            samples.append({'job': j.name, 'kind': j.kind, 'config': j.sample, 'status': j.result['status'],
                            'witness': j.result.get('witness'), 'wall_s': j.result.get('wall_s'),
                            'checker_cmd': j.result.get('checker_cmd')})
    solver_s = sum((j.result or {}).get('stats', {}).get('solver_s', 0) + (j.result or {}).get('stats', {}).get('decision_s', 0) for j in jobs)
    ev = {
        'property_id': prop, 'tier': tier, 'seed': seed, 'level': level,
        'coverage': {
            'evaluations': len(jobs),
            'distinct_nontrivial': len(set(j.name for j in discharged if j.result.get('witness') == 'reachable' or j.nowitness)) + sum(1 for j in negs if j.result and j.result['status'] == 'negctl-ok'),
            'rule': 'one evaluation = one solver query (CBMC bounded symbolic execution of the real functions + SAT verdict over all inputs within the bound); '
                    'distinct non-trivial = distinct obligations whose properties all came back UNSAT while the witness assert(0) at the end of the harness was reported reachable in the same run, plus negative controls (deliberately wrong oracle) that came back SAT',
            'obligations': len(obligations), 'discharged': len(discharged),
            'negative_controls': len(negs), 'negative_controls_sat': sum(1 for j in negs if j.result and j.result['status'] == 'negctl-ok'),
            'undecided': [j.name + ': ' + str(j.result.get('detail')) for j in undecided],
            'broken': [j.name + ': ' + str((j.result or {}).get('detail'))[:300] for j in broken],
            'engine_disagreements': [j.name for j in disagreements],
            'ub_reports_not_decisive': sorted(set(x for j in jobs for x in (j.result or {}).get('ub_reports', [])))[:40],
            'known_findings_hit': sorted(set(k['key'] for _, k in known_hit)),
            'known_finding_witnesses': [{'job': j.name, 'status': (j.result or {}).get('status'), 'replay': (j.result or {}).get('replay')} for j in knownjobs],
            'traces_validated_against_impl': traces_validated,
            'functions_encoded': funcs,
            'bounds': bounds or {},
            'outside_claim': list(outside),
            'checker_cmd': (jobs[0].result or {}).get('checker_cmd', '') if jobs else '',
            'trusted_base': list(trusted) or ['cbmc 6.11.0', 'kissat', 'harness stubs'],
            'solver_time_s': round(solver_s, 1),
            'repo_source_digest': repo_source_digest([u for j in jobs for u in j.units]),
            'samples': samples,
            'jobs': [{'name': j.name, 'kind': j.kind, 'status': (j.result or {}).get('status'), 'witness': (j.result or {}).get('witness'),
                      'wall_s': (j.result or {}).get('wall_s'), 'stats': (j.result or {}).get('stats'), 'config': j.sample,
                      'replay': (j.result or {}).get('replay')} for j in jobs],
            'exhaustive': False,
        },
        'assumptions': list(assumptions),
        'wall_s': round(wall, 1),
        'violations': len(viol),
    }
    if extra:
        ev['coverage'].update(extra)
    if write:
        os.makedirs(os.path.join(VERIF, 'evidence'), exist_ok=True)
        json.dump(ev, open(os.path.join(VERIF, 'evidence', prop + '.json'), 'w'), indent=1)
    for j in jobs:
        if j.kind == 'known' and j.result and j.result['status'] == 'known-present' and j.finding_key in kf:
            known_hit.append((j, kf[j.finding_key]))
    seen = set()
    for j, k in known_hit:
        if k['key'] in seen:
            continue
        seen.add(k['key'])
        print('KNOWN-FINDING: property=%s %s [%s]' % (prop, k['text'], k['key']))
    for j in disagreements:
        print('engine-disagreement (not a verdict): %s %s native=%s' % (j.name, j.result.get('cex_property'), j.result.get('replay')))
    for j in viol:
        print('VIOLATION property=%s replay=%s' % (prop, j.result['replay_file']))
        print('   job=%s failed=%s native=%s' % (j.name, j.result.get('cex_property'), j.result.get('replay')))
    print('%s %s: obligations=%d discharged=%d negctl=%d/%d undecided=%d broken=%d violations=%d known=%d wall=%.0fs' % (
        prop, tier, len(obligations), len(discharged), ev['coverage']['negative_controls_sat'], len(negs), len(undecided), len(broken), len(viol), len(known_hit), wall))
    sys.stdout.flush()
    if viol:
        return 1
    if broken:
        for j in broken:
            print('BROKEN: %s %s' % (j.name, str((j.result or {}).get('detail'))[:500]))
        return 2
    return 0
