import vf, repairgen
def shapes(tier):
    if tier == 'quick':
        return [(['BLKbad', 'BLK'], 1), (['BLKbad', 'BLK'], 2), (['BLKbad', 'BLKbad'], 2), (['BLK', 'BLKbad', 'EMPTY'], 2), (['BLK', 'BLK'], 2)]
    S = []
    for lv in (1, 2, 3):
        for sh in (['BLKbad', 'BLK'], ['BLK', 'BLKbad'], ['BLKbad', 'BLKbad'], ['BLK', 'BLK'], ['BLKbad', 'BLK', 'BLK'], ['BLK', 'BLKbad', 'EMPTY'], ['BLKbad', 'EMPTY', 'BLKbad'], ['BLKbad', 'BLKbad', 'BLKbad']):
            S.append((sh, lv))
    return S
def build(tier, seed):
    J = []
    for sh, lv in shapes(tier):
        J.append(repairgen.job('C01', sh, lv, timeout=1800 if tier == 'quick' else 7200))
    # reduced hash size and a hash migration in progress (previous hash kind and seed still in use on the stripe)
    J.append(repairgen.job('C01', ['BLKbad', 'BLK'], 1, hash_size=8, timeout=1800 if tier == 'quick' else 7200))
    J.append(repairgen.job('C01', ['BLKbad', 'BLK'], 1, rehash=1, timeout=1800 if tier == 'quick' else 7200))
    if tier != 'quick':
        J.append(repairgen.job('C01', ['BLKbad', 'BLK'], 2, hash_size=8, timeout=7200))
        J.append(repairgen.job('C01', ['BLKbad', 'BLKbad'], 2, rehash=1, timeout=7200))
    J.append(repairgen.job('C01', ['BLKbad', 'BLK'], 1, kind='negctl'))
    return dict(jobs=J, bounds={'data disks': '2-3', 'parity levels': '1-2 quick, 1-3 thorough', 'block': 64, 'stripes': 1},
        assumptions=['block hash = injective uninterpreted function (collision-freeness is an assumption of the property)', 'parity of the pre-state produced by the real raid_gen (its equality with the definition is C02)',
                     'no import / duplicate source (state_import_fetch / state_search_fetch answer "not found")', 'decode layer only: classification of read outcomes, write-back and file_post are outside this check (DESIGN.md C01 layer b)'],
        trusted=['cbmc 6.11.0', 'kissat', 'uf_hash.h', 'asm2c + simd_emu.h (SSSE3 decoders)'],
        outside=['links, directories, empty files, time-stamps', 'more disks / levels / stripes', 'state_check_process bookkeeping (write-back, flags)'])
