import vf, gf, raidgen
from raidgen import GEN, gen_job

def expect_header():
    C, V = raidgen.CAUCHY, raidgen.VANDER
    def tab(name, M):
        return 'static const uint8_t %s[%d][251] = {%s};\n' % (name, len(M), ','.join('{' + ','.join(str(x) for x in r) + '}' for r in M))
    full = 'static const uint8_t EXP_FULL[256][256] = {%s};\n' % ','.join('{' + ','.join(str(gf.mul(c, x)) for x in range(256)) + '}' for c in range(256))
    lo = 'static const uint8_t EXP_LO[256][16] = {%s};\n' % ','.join('{' + ','.join(str(gf.mul(c, x)) for x in range(16)) + '}' for c in range(256))
    hi = 'static const uint8_t EXP_HI[256][16] = {%s};\n' % ','.join('{' + ','.join(str(gf.mul(c, x << 4)) for x in range(16)) + '}' for c in range(256))
    return '/* generated from the definition (lib/gf.py) */\n' + tab('EXP_CAUCHY', C) + tab('EXP_VANDER', V) + full + lo + hi

def build(tier, seed):
    raidgen.gen_check_definition()
    J = []
    # ---- tables
    exp = {'c02_expect.h': expect_header()}
    for e in ('t_gfmul', 't_gfinv_exp', 't_matrix', 't_pshufb', 't_bittricks', 't_oracle_tables'):
        J.append(vf.Job('C02/tables/' + e, ['C02_tables.c'], harness_text=dict(exp), units=[raidgen.U_TABLES], entry=e, unwind=9, timeout=600, mem_gb=6,
                        sample={'tables': e, 'indices': 'symbolic'}, funcs=['raid_gfmul', 'raid_gfinv', 'raid_gfexp', 'raid_gfcauchy', 'raid_gfvandermonde', 'raid_gfcauchypshufb', 'raid_gfmulpshufb', 'x2_32', 'x2_64', 'd2_32', 'd2_64'], cost=50, native=False))
    J.append(vf.Job('C02/tables/negctl', ['C02_tables.c'], harness_text=dict(exp), units=[raidgen.U_TABLES], entry='t_negctl', defines=['NEGCTL'], unwind=9, kind='negctl',
                    sample={'wrong_oracle': 'one flipped bit in gfmul'}, native=False))
    # ---- generators, all data symbolic (G-dense)
    quick = tier == 'quick'
    for fn, (unit, np_, mode, stride) in GEN.items():
        int8 = stride == 1
        cheap = np_ <= 2 or mode == 'z'            # XOR / multiply-by-2 kernels: the miter stays easy
        portable = unit in (raidgen.U_INT, raidgen.U_INTZ) and not int8
        if quick:
            nds = [1, 2, 3] + ([8] if cheap else [])
            if int8:
                nds = [1, 2, 3]
            sweep = [32] if (cheap and not portable) else []
            if fn in ('raid_gen1_int32', 'raid_gen1_int64'):
                sweep = [251]
        else:
            nds = [1, 2, 3, 4, 8] + ([32, 33] if cheap else [12])
            if int8:
                nds = [1, 2, 3, 4, 6]
            sweep = [16, 64, 128, 200, 250, 251] if not int8 else [32, 251]
        for nd in nds:
            J.append(gen_job('C02', fn, nd, timeout=600 if quick else 5400))
        # sweep over the last-disk column: three symbolic disks {0, nd-2, nd-1}, zeros elsewhere (exercises table column nd-1 and the full geometry)
        for nd in sweep:
            hot = sorted(set([nd - 1, max(nd - 2, 0), 0]))
            J.append(gen_job('C02', fn, nd, hot=hot, timeout=600 if quick else 5400, mem_gb=6 if nd < 100 else 12))
    if not quick:
        for fn in ('raid_gen1_int64', 'raid_gen2_int64', 'raid_genz_int64', 'raid_gen2_int32', 'raid_gen1_avx2', 'raid_gen2_avx2'):
            J.append(gen_job('C02', fn, 251, timeout=7200, mem_gb=16))
    for fn in ('raid_gen2_int64', 'raid_gen3_ssse3', 'raid_gen6_avx2ext', 'raid_genz_sse2', 'raid_gen4_int8'):
        J.append(gen_job('C02', fn, 3, kind='negctl'))
    return dict(jobs=J,
        bounds={'nd': 'enumerated (see jobs): dense all-symbolic for small nd, three symbolic disks {0, nd-2, nd-1} for large nd', 'size': '64 bytes (128 for kernels consuming 64 bytes per iteration, 8 for the byte-wise int8 reference kernels called directly)',
                'implementations': sorted(GEN)},
        assumptions=['SIMD instruction semantics as written in harness/include/simd_emu.h (validated natively against the real instructions on every run by the engine self-check)',
                     'non-temporal stores modelled as stores; sfence/vzeroupper no-ops; buffer alignment not modelled'],
        trusted=['cbmc 6.11.0', 'kissat', 'lib/asm2c.py (asm statement -> emulator call rewriting, validated by native differential run)', 'harness/include/simd_emu.h', 'lib/gf.py (field + matrix definition)'],
        outside=['nd values and sizes not listed', 'CPU feature detection / which variant raid_init selects', 'memory ordering of non-temporal stores', 'buffer alignment requirements of movdqa'])
