import itertools, random
import vf, gf, raidgen
from raidgen import rec_job

def all_sets(nd, np_, maxnr=None):
    n = nd + np_
    out = []
    for nr in range(1, (maxnr or np_) + 1):
        for c in itertools.combinations(range(n), nr):
            out.append(list(c))
    return out

QUICK = [
 # (nd, np, ir) for raid_rec ; shapes: single data via P (rec1of1), via Q/R (rec1), 2 data via P+Q (rec2of2), via other pairs (rec2), 3 data (recX), parity only, mixed
 (1, 1, [0]), (2, 1, [1]), (2, 1, [2]),
 (3, 2, [0, 2]), (3, 2, [1, 3]), (3, 2, [0, 4]), (3, 2, [3, 4]), (3, 2, [2]),
 (6, 3, [0, 5, 8]), (6, 3, [2, 6, 7]), (6, 3, [5, 7]), (6, 3, [6, 7, 8]),
]
# three lost data blocks (recX): the round-trip miter takes > 20 min per set, thorough tier only
SLOW = [(3, 3, [0, 1, 2]), (6, 3, [1, 4, 6])]
QUICK_DATA = [
 # (nd, np, id, ip) for raid_data: recover with a chosen parity subset, other parities must stay untouched even if garbage
 (3, 3, [1], [2]), (3, 3, [0, 2], [0, 2]), (3, 3, [0, 1], [1, 2]), (3, 2, [2], [1]), (6, 3, [0, 5], [0, 1]),
]

def build(tier, seed):
    J = []
    quick = tier == 'quick'
    variants = ['int8', 'ssse3', 'avx2']
    if quick:
        for v in variants:
            for nd, np_, ir in QUICK:
                if v == 'int8' and nd >= 6 and len([x for x in ir if x < nd]) >= 2:
                    continue      # int8 + two lost data blocks at nd 6: ~10 min each, thorough only
                J.append(rec_job('C03', nd, np_, v, ir=ir))
            for nd, np_, i_d, i_p in QUICK_DATA:
                if v == 'int8' and nd >= 6:
                    continue
                J.append(rec_job('C03', nd, np_, v, idip=(i_d, i_p)))
        J.append(rec_job('C03', 3, 2, 'int8', ir=[0, 2], mode='c', kind='negctl'))
        J.append(rec_job('C03', 3, 2, 'ssse3', ir=[0, 2], kind='negctl'))
        J.append(rec_job('C03', 3, 3, 'int8', ir=[0, 2], mode='z'))
        J.append(rec_job('C03', 3, 3, 'ssse3', ir=[0, 2], mode='z'))
    else:
        rnd = random.Random(seed)
        for v in variants:
            for ir in all_sets(3, 3):
                J.append(rec_job('C03', 3, 3, v, ir=ir, timeout=3600))
            for nd, np_, ir in QUICK + SLOW:
                if (nd, np_) != (3, 3):
                    J.append(rec_job('C03', nd, np_, v, ir=ir, timeout=7200))
            for nd, np_, i_d, i_p in QUICK_DATA:
                J.append(rec_job('C03', nd, np_, v, idip=(i_d, i_p), timeout=3600))
            # larger geometries, index sets drawn deterministically from VERIF_SEED: indices >= 32, last disk, mixed data+parity, nr up to np
            for nd, np_, cnt in ((6, 6, 8), (12, 4, 6), (40, 6, 5), (251, 6, 3)):
                for _ in range(cnt):
                    nr = rnd.randint(1, np_ if nd < 100 else 3)
                    ir = sorted(rnd.sample(range(nd + np_), nr))
                    if rnd.random() < 0.5 and (nd - 1) not in ir:
                        ir = sorted(set(ir[:-1] + [nd - 1])) if len(ir) > 1 else [nd - 1]
                    J.append(rec_job('C03', nd, np_, v, ir=ir, timeout=5400, mem_gb=12))
            for ir in ([0, 1], [1, 3], [0, 2, 4], [2]):
                J.append(rec_job('C03', 3, 3, v, ir=ir, mode='z', timeout=3600))
        J.append(rec_job('C03', 3, 2, 'int8', ir=[0, 2], kind='negctl'))
        J.append(rec_job('C03', 3, 3, 'avx2', ir=[0, 1, 2], kind='negctl'))
    import C03_misc
    J += C03_misc.jobs(tier, seed)
    seen = set(); J2 = []
    for j in J:
        if j.name not in seen:
            seen.add(j.name); J2.append(j)
    J = J2
    return dict(jobs=J,
        bounds={'failure_index_sets': 'enumerated by the generator (listed per job); inside each all data, the garbage found in lost buffers and unused parities are symbolic', 'size': 64,
                'decoders': variants, 'generators installed in raid_gen_ptr': 'gen1/2/z int64, gen3..6 translated SSSE3'},
        assumptions=['parity of the pre-state is computed in the harness from the definition (lib/gf.py matrices), not by raid_gen',
                     'table() of raid/gf.h is analysed through an equivalent substitute (256 generated rows; equivalence rows[a][b]==raid_gfmul[a][b] discharged as its own obligation) because CBMC 6.11 mis-handles row pointers of constant 2-D arrays',
                     'SIMD semantics per simd_emu.h'],
        trusted=['cbmc 6.11.0', 'kissat', 'lib/asm2c.py', 'harness/include/simd_emu.h', 'lib/gf.py'],
        outside=['index sets not enumerated', 'sizes > 64', 'k x k minors with k >= 3 beyond the first 12 columns: follow from the Cauchy determinant theorem once the table is tied to the Cauchy definition (C02 obligation), not machine-checked here'])
