import vf, raidgen
def jobs(tier, seed):
    return []
