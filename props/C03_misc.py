import os, vf, raidgen, C02
def jobs(tier, seed):
    quick = tier == 'quick'
    J = []
    exp = {'c02_expect.h': C02.expect_header()}
    UT = raidgen.U_TABLES
    UR = vf.Unit('raid/raid.c')
    UC = vf.Unit('raid/check.c')
    for n, ncol in ([(1, 251), (2, 12)] if quick else [(1, 251), (2, 12), (2, 251), (3, 12)]):
        J.append(vf.Job('C03/minors/invert%d-cols%d' % (n, ncol), ['C03_misc.c'], harness_text=dict(exp), units=[UT, UR], entry='c03_invert', defines=['NINV=%d' % n, 'NCOL=%d' % ncol], unwind=8, timeout=1800 if quick else 7200, mem_gb=12, native=False,
                        funcs=['raid_invert', 'raid_gfcauchy', 'raid_gfmul', 'raid_gfinv'], cost=200 * n, sample={'sub-matrix': '%dx%d' % (n, n), 'rows': 'symbolic increasing < 6', 'columns': 'symbolic increasing < %d' % ncol}))
    J.append(vf.Job('C03/combination_next', ['C03_misc.c'], harness_text=dict(exp), units=[UT], entry='c03_combination', unwind=8, timeout=900, mem_gb=6, native=False, funcs=['combination_next'], cost=10,
                    sample={'r': '1..4 symbolic', 'n': '<= 9 symbolic', 'tuple': 'symbolic strictly increasing'}))
    J.append(vf.Job('C03/combination-negctl', ['C03_misc.c'], harness_text=dict(exp), units=[UT], entry='c03_negctl', defines=['NEGCTL'], unwind=8, kind='negctl', native=False, sample={'wrong_oracle': 'always a next combination'}))
    J.append(vf.Job('C03/check_index', ['C03_misc.c'], harness_text=dict(exp), units=[UT, UR, vf.Unit('raid/check.c', remove=['__CPROVER_file_local_check_c_raid_validate'])], entry='c03_check_index', defines=['RECORDER'], unwind=8,
                    timeout=900, mem_gb=6, native=False, funcs=['raid_check'], cost=10, sample={'nd': '1..5', 'np': '1..6', 'failed index list': 'symbolic'}))
    # consistency test: nd=2, np=3, size 8; candidate sets x one unlisted corrupted block
    nd, np_ = 2, 3
    cands = [0, 1 << 0, 1 << 1, 1 << 2, 1 << 4, (1 << 0) | (1 << 1), (1 << 0) | (1 << 2), (1 << 1) | (1 << 4)] if not quick else [0, 1 << 0, 1 << 2, (1 << 0) | (1 << 1)]
    for L in cands:
        listed = [i for i in range(nd + np_) if L >> i & 1]
        nrd = len([i for i in listed if i < nd]); nvalid = np_ - len([i for i in listed if i >= nd])
        if nrd >= nvalid:
            continue
        for extra in [-1] + [i for i in range(nd + np_) if i not in listed]:
            ht = dict(exp); ht['vf_rows.h'] = raidgen.table_rows_text()
            J.append(vf.Job('C03/validate/listed%s/extra%s' % ('_'.join(map(str, listed)) or 'none', extra if extra >= 0 else 'none'), ['C03_misc.c'], harness_text=ht,
                            units=[UT, vf.Unit('raid/raid.c', remove=[raidgen.TABLE_FN]), vf.Unit('raid/check.c', remove=[raidgen.TABLE_FN])], entry='c03_validate', defines=['LISTED=%d' % L, 'EXTRA=%d' % extra, 'VND=%d' % nd, 'TABLE_SUBST'], unwind=10, timeout=1800 if quick else 7200, mem_gb=12, native=True,
                            funcs=['raid_validate', 'raid_invert'], cost=100, sample={'nd': nd, 'np': np_, 'size': 8, 'listed failure set': listed, 'unlisted corrupted block': extra, 'data / garbage / corruption delta': 'symbolic'}))
    return J
