import vf, repairgen
def build(tier, seed):
    U = [vf.Unit('cmdline/check.c', flags=vf.PATHMAX64)]
    J = [vf.Job('C04/blockcmp', ['C04_blockcmp.c', 'stubs/log_stubs.c'], units=U, entry='c04_blockcmp', cflags=vf.PATHMAX64, unwind=66, timeout=1800, mem_gb=8, native=False, decisive=r'VF:|unwinding', funcs=['blockcmp'], cost=50,
                sample={'block': 64, 'synced content / bytes found / length of the file part / hash size 8 or 16 / hash migration': 'symbolic'}),
         vf.Job('C04/blockcmp-negctl', ['C04_blockcmp.c', 'stubs/log_stubs.c'], units=U, entry='c04_negctl', defines=['NEGCTL'], cflags=vf.PATHMAX64, unwind=66, kind='negctl', native=False, decisive=r'VF:|unwinding',
                sample={'wrong_oracle': 'padding bytes do not matter'})]
    # on an undamaged stripe repair() recomputes parity = generator(synced data): what check / fix compare the parity files with
    for sh, lv in ((['BLK', 'BLK'], 2), (['BLK', 'EMPTY'], 1)):
        J.append(repairgen.job('C04', sh, lv, timeout=1800 if tier == 'quick' else 7200))
    return dict(jobs=J, bounds={'block': 64, 'disks': 2},
        assumptions=['memhash = injective uninterpreted function: "any byte changes => the digest changes" is the collision-freeness assumption of the property'],
        trusted=['cbmc 6.11.0', 'kissat', 'uf_hash.h'],
        outside=['the per-stripe loops of check and scrub (which block of which disk is compared, error tags, bad marks, exit status): the stripe-level harnesses were not completed (DESIGN.md)', 'status listing'])
