import vf, repairgen
def build(tier, seed):
    U = [vf.Unit('cmdline/check.c', flags=vf.PATHMAX64)]
    J = [vf.Job('C04/blockcmp', ['C04_blockcmp.c', 'stubs/log_stubs.c'], units=U, entry='c04_blockcmp', cflags=vf.PATHMAX64, unwind=66, timeout=1800, mem_gb=8, native=False, decisive=r'VF:|unwinding', funcs=['blockcmp'], cost=50,
                sample={'block': 64, 'synced content / bytes found / length of the file part / hash size 8 or 16 / hash migration': 'symbolic'}),
         vf.Job('C04/blockcmp-negctl', ['C04_blockcmp.c', 'stubs/log_stubs.c'], units=U, entry='c04_negctl', defines=['NEGCTL'], cflags=vf.PATHMAX64, unwind=66, kind='negctl', native=False, decisive=r'VF:|unwinding',
                sample={'wrong_oracle': 'padding bytes do not matter'})]
    # on an undamaged stripe repair() recomputes parity = generator(synced data): what check / fix compare the parity files with
    for sh, lv in ((['BLK', 'BLK'], 2), (['BLK', 'EMPTY'], 1)):
        J.append(repairgen.job('C04', sh, lv, timeout=1800 if tier == 'quick' else 7200))
    # scrub: one stripe of the real state_scrub_process - a changed synced block or a changed parity block of a fully synced stripe is reported,
    # the command fails and exactly that stripe is marked bad; an undamaged stripe reports nothing and is refreshed (shared with C15)
    import C15
    for j in C15.build(tier, seed)['jobs']:
        if 'scrub_step' in j.name and 'faults' not in j.name:
            j.name = j.name.replace('C15/', 'C04/'); J.append(j)
    return dict(jobs=J, bounds={'block': 64, 'disks': 2},
        assumptions=['scrub step: abstract data plane (one 64-bit token per block), contract stubs for io_* / handle_* / parity_* / raid_gen (see C15)', 'memhash = injective uninterpreted function: "any byte changes => the digest changes" is the collision-freeness assumption of the property'],
        trusted=['cbmc 6.11.0', 'kissat', 'uf_hash.h'],
        outside=['the per-stripe loop of check (state_check_process): which block is compared, error tags, exit status', 'the text of the error tags of scrub (the stub of log_tag ignores its arguments)', 'status listing', 'more than one stripe per run'])
