import itertools
import vf, repairgen
def shapes(tier):
    if tier == 'quick':
        # a damaged synced block next to a pending (CHG) one is thorough only: with both, the number of blocks handed to repair_step()
        # is symbolic in both strategies and symbolic execution alone takes ~10 minutes or more at any level (DESIGN.md A.0); in the
        # quick tier those two shapes were never decided within 1800 s
        return [(['CHGbad', 'BLK'], 2), (['REPbad', 'BLK'], 2), (['BLKbad', 'DEL'], 1), (['BLKbad', 'REP'], 2), (['DEL', 'CHGbad'], 2), (['REP', 'CHGbad'], 2), (['BLKbad', 'BLKbad', 'BLKbad'], 2)]
    S = []
    kinds = ['BLK', 'BLKbad', 'REP', 'REPbad', 'CHG', 'CHGbad', 'DEL', 'EMPTY']
    for a, b in itertools.product(kinds, kinds):
        if not (a.endswith('bad') or b.endswith('bad')):
            continue   # nothing to write back: covered by "blocks read correctly are left as read"
        S.append(([a, b], 2))
    for sh in (['BLKbad', 'CHG', 'DEL'], ['CHGbad', 'REP', 'BLK'], ['BLKbad', 'BLKbad', 'CHG'], ['REPbad', 'CHGbad', 'BLKbad']):
        S.append((sh, 2))
    for sh in (['BLKbad', 'CHG'], ['CHGbad', 'BLK'], ['BLKbad', 'DEL'], ['REPbad', 'BLK']):
        S.append((sh, 1)); S.append((sh, 3))
    return S
def build(tier, seed):
    J = []
    known = set(k['key'] for k in vf.load_known_findings() if k['property'] == 'C05')
    for sh, lv in shapes(tier):
        if 'CHGbad' in sh and 'F-C05-a' in known:
            # listed finding: the obligation excludes its region (so that any other violation still fails the check) and a
            # witness job restricted to the region reports whether it is still present
            J.append(repairgen.job('C05', sh, lv, timeout=1800 if tier == 'quick' else 7200, defines=['EXCL_C05A'], tag='-exclF-C05-a'))
            if lv >= 2 and not any(j.kind == 'known' for j in J):
                J.append(repairgen.job('C05', sh, lv, kind='known', timeout=1800, defines=['ONLY_C05A'], finding_key='F-C05-a', tag='-onlyF-C05-a'))
        else:
            J.append(repairgen.job('C05', sh, lv, timeout=1800 if tier == 'quick' else 7200))
    J.append(repairgen.job('C05', ['BLKbad', 'BLK'], 1, kind='negctl'))
    return dict(jobs=J, bounds={'data disks': '2-3', 'parity levels': '1-2 quick, 1-3 thorough', 'block': 64, 'stripes': 1},
        assumptions=['block hash = injective uninterpreted function', 'pre-state = every combination allowed by the documented meaning of the block states (elem.h): per disk a recorded version and the version the old parity encodes, each parity level old / new / garbage / unreadable',
                     'no import / duplicate source'],
        trusted=['cbmc 6.11.0', 'kissat', 'uf_hash.h', 'asm2c + simd_emu.h'],
        outside=['write-back guard for excluded / unknown files (state_check_process)', 'DAMAGED -> .unrecoverable rename (file_post)', 'more disks / stripes'])
