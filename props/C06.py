import vf
FUNCS = ['state_sync_process', 'sync_data_reader', 'sync_parity_writer', 'block_is_enabled', 'failed_compare_by_index', 'block_state_get/set', 'block_has_invalid_parity', 'block_has_file', 'block_has_updated_hash', 'hash_is_unique', 'info_get', 'info_set', 'info_make']
def sync_jobs(prop, tier, extra_defines=(), tag='', kind='obligation', finding_key=None, confs=None):
    quick = tier == 'quick'
    U = [vf.Unit('cmdline/sync.c', flags=vf.PATHMAX64)]
    if confs is None:
        confs = [(2, 1)] if quick else [(2, 1), (2, 2), (3, 1)]
    J = []
    for nd, lv in confs:
        J.append(vf.Job('%s/sync_step/nd%d-level%d%s' % (prop, nd, lv, tag), ['C06_sync.c', 'stubs/log_stubs.c'], units=U, entry='c06_sync_step', defines=['ND=%d' % nd, 'LEVEL=%d' % lv] + list(extra_defines),
                        cflags=vf.PATHMAX64, unwind=max(nd, 8) + 9, timeout=1800 if quick else 7200, mem_gb=12, funcs=FUNCS, cost=500, native=False, kind=kind, finding_key=finding_key,
                        sample={'disks': nd, 'parity levels': lv, 'stripes': 1, 'symbolic': 'block states incl. holes, past-hash kinds, content tokens (recorded / encoded by parity / on disk now), per level old or new parity, open/stat/read faults per disk, parity write faults per level, reader order, stop request'}))
    return J
def build(tier, seed):
    known = set(k['key'] for k in vf.load_known_findings())
    J = []
    if 'F-C08-c' in known:
        J += sync_jobs('C06', tier, ['EXCL_C08C'], tag='-exclF-C08-c')
    else:
        J += sync_jobs('C06', tier)
    return dict(jobs=J, bounds={'disks': '2 (3 thorough)', 'levels': '1 (2 thorough)', 'stripes': 1, 'data plane': 'abstract: 8-byte blocks = one token'},
        assumptions=['abstract data plane: memhash = injective uninterpreted function, raid_gen = fresh parity tokens with a ghost record of the encoded vector, raid_rec = contract stub (that the real kernels meet these contracts is C02/C03)',
                     'io_* = contract stubs re-stating the single-thread semantics with an ideal error report (that io.c meets it is C13 and the mono harness of C08)',
                     'pre-state = every combination of block states / past hashes / per-level old-or-new parity allowed by the documented meaning of the states; no hash migration on the stripe'],
        trusted=['cbmc 6.11.0', 'kissat', 'stubs listed in harness/C06_sync.c'],
        outside=['block map allocation (scan.c/elem.c trees)', 'parity file size', 'more than one stripe (autosave between stripes)', 'rehash, touch'])
