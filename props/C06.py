import vf
FUNCS = ['state_sync_process', 'sync_data_reader', 'sync_parity_writer', 'block_is_enabled', 'failed_compare_by_index', 'block_state_get/set', 'block_has_invalid_parity', 'block_has_file', 'block_has_updated_hash', 'hash_is_unique', 'info_get', 'info_set', 'info_make']
KN = {'HOLE': 0, 'EMPTY': 1, 'BLK': 2, 'CHG': 3, 'REP': 4, 'DEL': 5}
def sync_job(prop, shape, lv, faults=False, wfaults=False, reorder=False, extra_defines=(), tag='', kind='obligation', finding_key=None, timeout=1800):
    U = [vf.Unit('cmdline/sync.c', flags=vf.PATHMAX64)]
    nd = len(shape)
    D = ['ND=%d' % nd, 'LEVEL=%d' % lv, 'KINDS=' + ','.join(str(KN[k]) for k in shape)] + (['FAULTS'] if faults else []) + (['WFAULTS'] if wfaults else []) + (['REORDER'] if reorder else []) + list(extra_defines)
    name = '%s/sync_step/%s/level%d%s%s%s%s' % (prop, '-'.join(shape), lv, '-faults' if faults else '', '-wfaults' if wfaults else '', '-reorder' if reorder else '', tag)
    return vf.Job(name, ['C06_sync.c', 'stubs/log_stubs.c'], units=U, entry='c06_sync_step', defines=D,
                  cflags=vf.PATHMAX64, unwind=max(nd, 8) + 9, timeout=timeout, mem_gb=12, funcs=FUNCS, cost=500, native=False, kind=kind, finding_key=finding_key,
                  sample={'stripe shape (block state per disk)': shape, 'parity levels': lv, 'read faults': 'symbolic open/stat/read faults per disk' if faults else 'none', 'parity write faults': 'symbolic per level' if wfaults else 'none',
                          'symbolic': 'past-hash kinds, content tokens (recorded / encoded by parity / on disk now), per level old or new parity, info word, stop request'})
def shapes(tier):
    if tier == 'quick':
        return [(['CHG', 'BLK'], 1), (['BLK', 'BLK'], 1), (['REP', 'DEL'], 1), (['CHG', 'EMPTY'], 1)]
    import itertools
    S = []
    ks = ['HOLE', 'EMPTY', 'BLK', 'CHG', 'REP', 'DEL']
    for a, b in itertools.product(ks, ks):
        if a in ('HOLE', 'EMPTY') and b in ('HOLE', 'EMPTY'):
            continue
        S.append(([a, b], 1))
    for sh in (['CHG', 'BLK'], ['REP', 'DEL'], ['BLK', 'BLK'], ['CHG', 'CHG']):
        S.append((sh, 2))
    for sh in (['CHG', 'BLK', 'DEL'], ['BLK', 'REP', 'HOLE']):
        S.append((sh, 1))
    return S
def build(tier, seed):
    known = set(k['key'] for k in vf.load_known_findings())
    J = []
    to = 1800 if tier == 'quick' else 7200
    for sh, lv in shapes(tier):
        J.append(sync_job('C06', sh, lv, timeout=to))
    J.append(sync_job('C06', ['CHG', 'BLK'], 1, reorder=True, timeout=to))
    return dict(jobs=J, bounds={'disks': '2 (3 thorough)', 'levels': '1 (2 thorough)', 'stripes': 1, 'data plane': 'abstract: 8-byte blocks = one token'},
        assumptions=['abstract data plane: memhash = injective uninterpreted function, raid_gen = fresh parity tokens with a ghost record of the encoded vector, raid_rec = contract stub (that the real kernels meet these contracts is C02/C03)',
                     'io_* = contract stubs re-stating the single-thread semantics with an ideal error report (that io.c meets it is C13 and the mono harness of C08)',
                     'pre-state = every combination of block states / past hashes / per-level old-or-new parity allowed by the documented meaning of the states; no hash migration on the stripe'],
        trusted=['cbmc 6.11.0', 'kissat', 'stubs listed in harness/C06_sync.c'],
        outside=['block map allocation (scan.c/elem.c trees)', 'parity file size', 'more than one stripe (autosave between stripes)', 'rehash, touch'])
