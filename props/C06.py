import vf
def build(tier, seed):
    # the per-stripe invariant on the whole state_sync_process (props/syncstep.py, harness/C06_sync.c), the save / flush protocol of
    # state_sync() and the size arithmetic of the parity files (shared with C14 / C17)
    import C14_interlocks, C17
    J = [j for j in C14_interlocks.jobs(tier, seed, prop='C06') if 'refusal' not in j.name]
    for j in C17.build(tier, seed)['jobs']:
        if 'c17_chsize' in j.name or 'negctl' in j.name:
            j.name = j.name.replace('C17/', 'C06/parity_size/'); J.append(j)
    import syncstep
    J += syncstep.jobs('C06', tier)
    return dict(jobs=J, bounds={'parity levels': '1-3 (quick)', 'splits': 'see C17'},
        assumptions=['state_sync_process / state_hash_process / parity_* / state_write are recorders with symbolic answers in the protocol harness'] + syncstep.ASSUMPTIONS,
        trusted=['cbmc 6.11.0', 'kissat', 'recorder stubs'],
        outside=['more than one stripe per run, autosave points, more than 3 disks', 'a hash migration pending during sync', 'block map allocation (scan.c / elem.c): no two files share a position, positions increase with the offset', 'fix, rehash, touch (scrub: C15 step)', 'the real bytes: parity = generator(data) is C02, decoding is C03'])
