import vf
FUNCS = ['state_sync_process', 'sync_data_reader', 'sync_parity_writer', 'block_is_enabled', 'failed_compare_by_index', 'block_state_get/set', 'block_has_invalid_parity', 'block_has_file', 'block_has_updated_hash', 'hash_is_unique', 'info_get', 'info_set', 'info_make']
KN = {'HOLE': 0, 'EMPTY': 1, 'BLK': 2, 'CHG': 3, 'REP': 4, 'DEL': 5}
def sync_job(prop, shape, lv, faults=False, wfaults=False, reorder=False, extra_defines=(), tag='', kind='obligation', finding_key=None, timeout=1800):
    U = [vf.Unit('cmdline/sync.c', flags=vf.PATHMAX64)]
    nd = len(shape)
    D = ['ND=%d' % nd, 'LEVEL=%d' % lv, 'KINDS=' + ','.join(str(KN[k]) for k in shape)] + (['FAULTS'] if faults else []) + (['WFAULTS'] if wfaults else []) + (['REORDER'] if reorder else []) + list(extra_defines)
    name = '%s/sync_step/%s/level%d%s%s%s%s' % (prop, '-'.join(shape), lv, '-faults' if faults else '', '-wfaults' if wfaults else '', '-reorder' if reorder else '', tag)
    return vf.Job(name, ['C06_sync.c', 'stubs/log_stubs.c'], units=U, entry='c06_sync_step', defines=D,
                  cflags=vf.PATHMAX64, unwind=max(nd, 8) + 9, timeout=timeout, mem_gb=12, funcs=FUNCS, cost=500, native=False, kind=kind, finding_key=finding_key, flags=['--max-field-sensitivity-array-size', '256'],
                  sample={'stripe shape (block state per disk)': shape, 'parity levels': lv, 'read faults': 'symbolic open/stat/read faults per disk' if faults else 'none', 'parity write faults': 'symbolic per level' if wfaults else 'none',
                          'symbolic': 'past-hash kinds, content tokens (recorded / encoded by parity / on disk now), per level old or new parity, info word, stop request'})
def shapes(tier):
    if tier == 'quick':
        return [(['CHG', 'BLK'], 1), (['BLK', 'BLK'], 1), (['REP', 'DEL'], 1), (['CHG', 'EMPTY'], 1)]
    import itertools
    S = []
    ks = ['HOLE', 'EMPTY', 'BLK', 'CHG', 'REP', 'DEL']
    for a, b in itertools.product(ks, ks):
        if a in ('HOLE', 'EMPTY') and b in ('HOLE', 'EMPTY'):
            continue
        S.append(([a, b], 1))
    for sh in (['CHG', 'BLK'], ['REP', 'DEL'], ['BLK', 'BLK'], ['CHG', 'CHG']):
        S.append((sh, 2))
    for sh in (['CHG', 'BLK', 'DEL'], ['BLK', 'REP', 'HOLE']):
        S.append((sh, 1))
    return S
def build(tier, seed):
    # The stripe-level step (sync_job above, harness/C06_sync.c) does not finish symbolic execution in this sandbox (> 15 min
    # per shape, see DESIGN.md); it is kept for reference and NOT registered.  What is decided for C06 is the save / flush
    # protocol of state_sync() and the size arithmetic of the parity files (shared with C14 / C17).
    import C14_interlocks, C17
    J = [j for j in C14_interlocks.jobs(tier, seed, prop='C06') if 'refusal' not in j.name]
    for j in C17.build(tier, seed)['jobs']:
        if 'c17_chsize' in j.name or 'negctl' in j.name:
            j.name = j.name.replace('C17/', 'C06/parity_size/'); J.append(j)
    return dict(jobs=J, bounds={'parity levels': '1-3 (quick)', 'splits': 'see C17'},
        assumptions=['state_sync_process / state_hash_process / parity_* / state_write are recorders with symbolic answers in the protocol harness',
                     'the per-stripe invariant (a block becomes synced only after its parity was generated from the data whose hash is recorded) is NOT decided here: the whole-function harness did not finish'],
        trusted=['cbmc 6.11.0', 'kissat', 'recorder stubs'],
        outside=['per-stripe state changes of state_sync_process', 'block map allocation (scan.c / elem.c)', 'scrub, fix, rehash, touch'])
