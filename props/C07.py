import vf
def save_jobs(prop, entries, tier):
    quick = tier == 'quick'
    U = [vf.Unit('cmdline/state.c', flags=vf.PATHMAX64, remove=['__CPROVER_file_local_state_c_state_write_thread', '__CPROVER_file_local_state_c_state_fscheck']),
         vf.Unit('cmdline/stream.c', flags=vf.PATHMAX64)]
    J = []
    for nc in ([1, 2] if quick else [1, 2, 3]):
        for e in entries:
            J.append(vf.Job('%s/save/%s/copies%d' % (prop, e, nc), ['C07_save.c', 'stubs/log_stubs.c'], units=U, entry=e, defines=['NC=%d' % nc], cflags=vf.PATHMAX64, unwind=18, timeout=1800 if quick else 7200, mem_gb=10,
                            native=False, decisive=r'VF:|unwinding', cost=100 * nc,
                            funcs=['state_write', 'state_write_content', 'state_verify_content', 'state_verify_thread', 'state_rename_content', 'sopen_multi_write', 'sopen_multi_file', 'sopen_read', 'swrite', 'sflush', 'ssync', 'sclose', 'sfill', 'sdeplete', 'scrc', 'sputble32'],
                            sample={'entry': e, 'content copies': nc, 'old contents / stale .tmp files': 'symbolic', 'encoder output': '3 symbolic bytes + seal', 'STREAM_SIZE': 4,
                                    'faults': 'process death before any system call' if e == 'c07_crash' else 'failed / short write at the k-th write, silent alteration of one copy'}))
    return J
def build(tier, seed):
    J = save_jobs('C07', ['c07_crash'], tier)
    J.append(vf.Job('C07/save/negctl', ['C07_save.c', 'stubs/log_stubs.c'], units=J[0].units, entry='c07_negctl', defines=['NC=1', 'NEGCTL'], cflags=vf.PATHMAX64, unwind=18, kind='negctl', native=False, decisive=r'VF:|unwinding',
                    sample={'wrong_oracle': 'nothing is ever written'}))
    import C14_interlocks
    J += [j for j in C14_interlocks.jobs(tier, seed, prop='C07') if 'refusal' not in j.name and 'negctl' not in j.name]
    return dict(jobs=J, bounds={'content copies': '1-2 (3 thorough)', 'file bytes': 12, 'encoder output': '3 bytes + seal', 'crashes': 'one per run (the first ends the process)'},
        assumptions=['abstract file system: open/read/write/fsync/close/rename/remove on named byte arrays; rename is atomic and fsync durable (kernel semantics trusted)',
                     'the encoder state_write_thread is a stub emitting an arbitrary body and its seal through the real stream; crc32c is any incremental checksum (the real one is decided in C09)',
                     'verification threads run to completion at creation'],
        trusted=['cbmc 6.11.0', 'kissat', 'file-system stubs'],
        outside=['crashes inside pwrite of parity/data blocks', 'resumption of an interrupted sync / fix (reduced to the pre-states of C05; the stripe-level sync harness did not finish, see DESIGN.md)', 'signal handling', 'power-loss semantics of the page cache'])
