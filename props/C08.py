import vf
def mono_jobs(prop):
    U = [vf.Unit('cmdline/io.c', flags=vf.PATHMAX64)]
    J = [vf.Job('%s/mono/writer_errors/levels%d' % (prop, n), ['C08_mono.c', 'stubs/log_stubs.c'], units=U, entry='c08_mono_errors', defines=['NLEV=%d' % n], cflags=vf.PATHMAX64, unwind=9, timeout=900, mem_gb=8, native=True,
                funcs=['io_write_preset_mono', 'io_parity_write_mono', 'io_write_next_mono', 'io_writer_sched', 'io_writer_sched_empty'], cost=10,
                sample={'parity levels': n, 'outcome of each level\'s write': 'symbolic (done / the four error states)', 'error counters left by earlier stripes': 'symbolic'}) for n in range(1, 7)] + [
         vf.Job('%s/mono/negctl' % prop, ['C08_mono.c', 'stubs/log_stubs.c'], units=U, entry='c08_negctl', defines=['NEGCTL'], cflags=vf.PATHMAX64, unwind=9, kind='negctl', native=True, sample={'wrong_oracle': 'writer never run'})]
    return J
def build(tier, seed):
    import C13
    known = set(k['key'] for k in vf.load_known_findings() if k['property'] == 'C08')
    J = mono_jobs('C08')
    # (reader-side faults and writer faults inside the sync loop need the stripe-level harness, which does not finish here: see DESIGN.md)
    # threaded writer accounting: io_writer_step / io_write_next_thread (shared with C13)
    for j in C13.build(tier, seed)['jobs']:
        if 'writer_step' in j.name or 'write_next' in j.name:
            j.name = j.name.replace('C13/', 'C08/thread/'); J.append(j)
    return dict(jobs=J, bounds={'parity levels': '1..6 (mono layer)', 'sync step': 'see C06'},
        assumptions=['sync step: abstract data plane and I/O contract stubs as in C06'], trusted=['cbmc 6.11.0', 'kissat'],
        outside=['scrub loop (state_scrub_process) error handling', 'late reporting of writer errors by the threaded layer across several stripes (needs > 1 stripe)'])
