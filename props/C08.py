import vf
def mono_jobs(prop):
    U = [vf.Unit('cmdline/io.c', flags=vf.PATHMAX64)]
    J = [vf.Job('%s/mono/writer_errors/levels%d' % (prop, n), ['C08_mono.c', 'stubs/log_stubs.c'], units=U, entry='c08_mono_errors', defines=['NLEV=%d' % n], cflags=vf.PATHMAX64, unwind=9, timeout=900, mem_gb=8, native=True,
                funcs=['io_write_preset_mono', 'io_parity_write_mono', 'io_write_next_mono', 'io_writer_sched', 'io_writer_sched_empty'], cost=10,
                sample={'parity levels': n, 'outcome of each level\'s write': 'symbolic (done / the four error states)', 'error counters left by earlier stripes': 'symbolic'}) for n in range(1, 7)] + [
         vf.Job('%s/mono/negctl' % prop, ['C08_mono.c', 'stubs/log_stubs.c'], units=U, entry='c08_negctl', defines=['NEGCTL'], cflags=vf.PATHMAX64, unwind=9, kind='negctl', native=True, sample={'wrong_oracle': 'writer never run'})]
    return J
def build(tier, seed):
    import C13
    known = set(k['key'] for k in vf.load_known_findings() if k['property'] == 'C08')
    J = mono_jobs('C08')
    # reader-side faults and parity write faults inside the sync loop (one stripe of the real state_sync_process), and inside the scrub loop
    import syncstep, C15
    J += syncstep.jobs('C08', tier)
    for j in C15.build(tier, seed)['jobs']:
        if 'scrub_step' in j.name and 'faults' in j.name:
            j.name = j.name.replace('C15/', 'C08/'); J.append(j)
    # threaded writer accounting: io_writer_step / io_write_next_thread (shared with C13)
    for j in C13.build(tier, seed)['jobs']:
        if 'writer_step' in j.name or 'write_next' in j.name:
            j.name = j.name.replace('C13/', 'C08/thread/'); J.append(j)
    return dict(jobs=J, bounds={'parity levels': '1..6 (mono layer)', 'sync step': 'see C06'},
        assumptions=syncstep.ASSUMPTIONS + ['scrub step: same data plane, real state_scrub_process / scrub_data_reader / scrub_parity_reader (see C15)'], trusted=['cbmc 6.11.0', 'kissat'],
        outside=['more than one stripe per run: the error limit, the attribution of late writer errors to stripes', 'parity read errors inside the on-the-fly recovery of sync are modelled only through the contract stub of parity_read (no fault injected there)'])
