import vf
U_STREAM = vf.Unit('cmdline/stream.c', flags=vf.PATHMAX64)
def stream_jobs(prop, tier, which):
    quick = tier == 'quick'
    nb, ssz, strsz = (14, 4, 6) if quick else (16, 3, 8)
    D = ['NB=%d' % nb, 'SSZ=%d' % ssz, 'STRSZ=%d' % strsz]
    J = []
    funcs = ['sgetc_uncached', 'sfill', 'sread', 'sgetb32', 'sgetb64', 'sgetble32', 'sgetbs', 'sgetu32', 'sgettok', 'sgetline', 'sdeplete', 'swrite', 'sflush', 'sputb32', 'sputb64', 'sputble32', 'sputbs']
    ents = []
    for e in which:
        if e == 'c09_misc':
            ents += [(e, w, n) for w, n in enumerate(['sgettok', 'sgetline', 'sgetu32', 'sgetble32', 'sread', 'sdeplete'])]
        else:
            ents.append((e, None, None))
    for e, w, wn in ents:
        J.append(vf.Job('%s/stream/%s%s' % (prop, e, '' if w is None else '-' + wn), ['C09_stream.c', 'stubs/log_stubs.c'], units=[U_STREAM], entry=e, defines=D + ([] if w is None else ['WHICH=%d' % w]), cflags=vf.PATHMAX64,
                        unwind=nb + 4, timeout=900 if quick else 3600, mem_gb=6, funcs=funcs, cost=20,
                        sample={'entry': e, 'file_bytes<=': nb, 'STREAM_SIZE': ssz, 'string_size<=': strsz, 'read_chunking': 'arbitrary'}))
    return J
def build(tier, seed):
    J = stream_jobs('C09', tier, ['c09_getb32', 'c09_getb64', 'c09_getbs', 'c09_misc'])
    J.append(vf.Job('C09/stream/negctl', ['C09_stream.c', 'stubs/log_stubs.c'], units=[U_STREAM], entry='c10_negctl', defines=['NB=12', 'SSZ=4', 'STRSZ=6', 'NEGCTL'], cflags=vf.PATHMAX64,
                    unwind=16, kind='negctl', sample={'wrong_oracle': '4 bytes enough for every 32-bit varint'}))
    import C09_crc
    J += C09_crc.jobs(tier, seed)
    import C07
    J += C07.save_jobs('C09', ['c09_faults', 'c07_crash'], tier)
    return dict(jobs=J, bounds={'untrusted_bytes': 12 if tier == 'quick' else 16, 'STREAM_SIZE': 4 if tier == 'quick' else 3},
        assumptions=['read() may return any count in 1..min(asked, remaining); crc32c stubbed in the decoder harness (its definition is decided in the CRC obligations)'],
        trusted=['cbmc 6.11.0', 'kissat', 'read()/write() memory-file stubs'],
        outside=['longer files', 'whole state_read_content loop (see DESIGN.md C09-3)', 'more than 2 (3 thorough) content copies'])
