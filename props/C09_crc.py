import vf, asm2c
U_UTIL = vf.Unit('cmdline/util.c', companions=[('cmdline/util.h', asm2c.translate_crc)])
NOTE = 'table-driven CRC decided by induction over its loops (byte step, 4-byte slice step from an arbitrary CRC state) + bookkeeping on 0/1 bytes; see harness/C09_crc.c'
FUNCS = ['crc32c_gen', 'crc32c_gen_plain', 'crc32c_x86', 'crc32c_x86_plain', 'crc32c_plain', 'crc32c_plain_char', 'CRC32C_0..3']
def jobs(tier, seed, prop='C09'):
    quick = tier == 'quick'
    L = 12 if quick else 24
    J = []
    import os
    for e in ('crc_tables', 'crc_byte', 'crc_step4', 'crc_bookkeeping', 'crc_x86_def', 'crc_detect'):
        J.append(vf.Job('%s/crc/%s' % (prop, e), [], harness_text={'h.c': open(os.path.join(vf.VERIF, 'harness/C09_crc.c')).read(), 'util.h': asm2c.translate_crc(open(os.path.join(vf.REPO, 'cmdline/util.h')).read())},
                        units=[U_UTIL], entry=e, defines=['L=%d' % L], unwind=L + 9, unwindset=['emu_crc32_bits.0:65', '__CPROVER_file_local_crc_emu_h_emu_crc32_bits.0:65'], timeout=900 if quick else 3600, mem_gb=6, funcs=FUNCS, cost=30,
                        sample={'entry': e, 'length<=': L, 'bytes': 'symbolic', 'initial_crc': 'symbolic'}, native_defines=[]))
    J.append(vf.Job('%s/crc/negctl' % prop, [], harness_text={'h.c': open(os.path.join(vf.VERIF, 'harness/C09_crc.c')).read(), 'util.h': asm2c.translate_crc(open(os.path.join(vf.REPO, 'cmdline/util.h')).read())},
                    units=[U_UTIL], entry='crc_negctl', defines=['L=8', 'NEGCTL'], unwind=17, unwindset=['emu_crc32_bits.0:65', '__CPROVER_file_local_crc_emu_h_emu_crc32_bits.0:65'], kind='negctl', sample={'wrong_oracle': 'crc flipped for one input'}))
    return J
