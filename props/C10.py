import vf, C09
def build(tier, seed):
    J = C09.stream_jobs('C10', tier, ['c10_b32', 'c10_b64', 'c10_bs'])
    J.append(vf.Job('C10/stream/negctl', ['C09_stream.c', 'stubs/log_stubs.c'], units=[C09.U_STREAM], entry='c10_negctl', defines=['NB=14', 'SSZ=4', 'STRSZ=6', 'NEGCTL'], cflags=vf.PATHMAX64,
                    unwind=18, kind='negctl', sample={'wrong_oracle': '4 bytes enough for every 32-bit varint'}))
    import C10_info
    J += C10_info.jobs(tier, seed)
    return dict(jobs=J, bounds={'values': 'all 32/64-bit values', 'string_bytes': 6 if tier == 'quick' else 8, 'STREAM_SIZE': 4},
        assumptions=['write() appends to a memory file that read() then delivers in arbitrary chunks; crc32c stubbed (decided in C09/C16)'],
        trusted=['cbmc 6.11.0', 'kissat', 'memory-file stubs'],
        outside=['whole state_write_thread / state_read_content record round trips (see DESIGN.md C10-3: not within reach as a whole)'])
