import vf, slicer
def record_jobs(prop, tier, entries=('c10_record_f', 'c10_record_h')):
    quick = tier == 'quick'
    U = [vf.Unit('cmdline/state.c', flags=vf.PATHMAX64, transform=slicer.slices(['f', 'h']), remove=['__CPROVER_file_local_state_c_decoding_error']),
         vf.Unit('cmdline/stream.c', flags=vf.PATHMAX64)]
    J = []
    for e in entries:
        for bs in ([256] if quick else [256, 65536]):
            J.append(vf.Job('%s/records/%s/bs%d' % (prop, e, bs), ['C10_records.c', 'stubs/log_stubs.c'], units=U, entry=e, defines=['BSIZE=%d' % bs], cflags=vf.PATHMAX64, unwind=18, timeout=2400 if quick else 7200, mem_gb=12,
                            native=False, decisive=r'VF:|unwinding', cost=200,
                            funcs=['state_read_content (record handler %s, verbatim slice)' % e[-1], 'sgetb32', 'sgetb64', 'sgetbs', 'sread', 'sputb32', 'sputb64', 'sputbs', 'swrite', 'sflush', 'sfill'],
                            sample={'record': e[-1], 'block_size': bs, 'field values (size, time, inode, name bytes, positions, counts, states, hashes), hash size 8/16, clear_past_hash, force_nocopy, force_realloc': 'symbolic', 'blocks followed to the end': 3}))
    return J
def jobs(tier, seed):
    J = record_jobs('C10', tier)
    U = J[0].units
    J.append(vf.Job('C10/records/negctl', ['C10_records.c', 'stubs/log_stubs.c'], units=U, entry='c10_records_negctl', defines=['NEGCTL'], cflags=vf.PATHMAX64, unwind=18, kind='negctl', native=False, decisive=r'VF:|unwinding',
                    sample={'wrong_oracle': 'past hash of a pending block kept although past hashes are distrusted'}))
    return J
