import vf, slicer
def units():
    return [vf.Unit('cmdline/state.c', flags=vf.PATHMAX64, transform=slicer.slices(['f', 'h']), remove=['__CPROVER_file_local_state_c_decoding_error']),
            vf.Unit('cmdline/stream.c', flags=vf.PATHMAX64)]
def units_contract():
    return [vf.Unit('cmdline/state.c', flags=vf.PATHMAX64, transform=slicer.slices(['f', 'h']), remove=['__CPROVER_file_local_state_c_decoding_error']),
            vf.Unit('cmdline/stream.c', flags=vf.PATHMAX64, remove=['sgetb32', 'sgetb64'])]
def record_jobs(prop, tier):
    quick = tier == 'quick'
    U = units(); UC = units_contract()
    J = []
    def mk(name, entry, defs, sample, contract=False):
        if contract: defs = defs + ['CONTRACT_DECODERS']; sample = dict(sample); sample['sgetb32 / sgetb64'] = 'contract stubs (decided in C10/stream)'
        J.append(vf.Job('%s/records/%s' % (prop, name), ['C10_records.c', 'stubs/log_stubs.c'], units=UC if contract else U, entry=entry, defines=defs, cflags=vf.PATHMAX64, unwind=18, unwindset=['read.0:161'], timeout=1800 if quick else 7200, mem_gb=12, nobody_ok=('tommy_hash_u32',),
                        native=False, decisive=r'VF:|unwinding', cost=200, flags=['--max-field-sensitivity-array-size', '160'],
                        funcs=['state_read_content (record handler %s, verbatim slice)' % entry[-1], 'sgetc', 'sgetb32', 'sgetb64', 'sgetbs', 'sread', 'sfill'], sample=sample))
    bss = [256] if quick else [256, 65536]
    FIELDS = {0: 'none (all numeric fields small constants)', 1: 'size (all 64-bit values giving this block count)', 2: 'mtime seconds (all 64-bit values)', 3: 'inode (all 64-bit values)', 4: 'nanoseconds field', 5: 'first run position and array size (all 32-bit values)'}
    for bs in bss:
        for hsz in (16, 8):
            for nblk, run1 in ([(1, 1), (2, 1), (2, 2)] if quick else [(1, 1), (2, 1), (2, 2), (3, 1), (3, 2), (3, 3)]):
                if quick and hsz == 8 and (nblk, run1) != (2, 1):
                    continue
                real = (nblk, run1) in ((1, 1), (2, 2))      # integration with the real sgetb32 / sgetb64 on records whose numbers are all concrete
                tworuns = run1 < nblk
                for st0 in ((0, 1, 2) if tworuns else (None,)):
                    if quick and hsz == 8 and st0 not in (None, 1):
                        continue
                    mk('f/blocks%d-run%d%s/hash%d/bs%d' % (nblk, run1, '' if st0 is None else '-first' + 'bgp'[st0], hsz, bs), 'c10_record_f',
                       ['BSIZE=%d' % bs, 'NBLK=%d' % nblk, 'RUN1=%d' % run1, 'HSZ=%d' % hsz, 'SYMFIELD=%d' % (0 if real else 9)] + ([] if st0 is None else ['RUNST0=%d' % st0]),
                       {'record': 'f', 'blocks': nblk, 'blocks in first run': run1, 'state of the first run': 'symbolic' if st0 is None else 'bgp'[st0], 'block_size': bs, 'hash size': hsz,
                        'symbolic': 'name bytes, run states, hashes, clear_past_hash, force_nocopy, force_realloc' + ('' if real else ', every numeric field')}, contract=not real)
        FIELDS[9] = 'size, mtime seconds, nanoseconds, inode, first run position and array size together'
        for fld in (1, 2, 3, 4, 5, 9):
            mk('f/field%d/bs%d' % (fld, bs), 'c10_record_f', ['BSIZE=%d' % bs, 'NBLK=1', 'RUN1=1', 'HSZ=16', 'SYMFIELD=%d' % fld],
               {'record': 'f', 'blocks': 1, 'block_size': bs, 'numeric field ranging over all its values': FIELDS[fld]}, contract=True)
        for nblk in [1, 2]:      # short deleted runs
            for df in (0, 1):
                mk('h/deleted%d-%s/bs%d' % (nblk, 'first' if df else 'second', bs), 'c10_record_h', ['BSIZE=%d' % bs, 'NBLK=%d' % nblk, 'DELFIRST=%d' % df, 'HSZ=16'],
                   {'record': 'h', 'deleted run': nblk, 'free run': 5, 'deleted run comes first': bool(df), 'hashes, clear_past_hash': 'symbolic'}, contract=True)
        mk('h/deleted-long/bs%d' % bs, 'c10_record_h', ['BSIZE=%d' % bs, 'BIGRUN', 'DELFIRST=1', 'HSZ=16'],
           {'record': 'h', 'deleted run': 'symbolic count > 3 (all 32-bit values), followed up to the allocation of its pseudo file', 'block_size': bs}, contract=True)
    return J
def jobs(tier, seed):
    J = record_jobs('C10', tier)
    J.append(vf.Job('C10/records/negctl', ['C10_records.c', 'stubs/log_stubs.c'], units=units(), entry='c10_records_negctl', defines=['NEGCTL'], cflags=vf.PATHMAX64, unwind=18, unwindset=['read.0:161'], nobody_ok=('tommy_hash_u32',), kind='negctl', native=False, decisive=r'VF:|unwinding', flags=['--max-field-sensitivity-array-size', '160'],
                    sample={'wrong_oracle': 'past hash of a pending block kept although past hashes are distrusted'}))
    return J
