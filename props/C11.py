import vf
RM = ['__CPROVER_file_local_scan_c_scan_file_keep', '__CPROVER_file_local_scan_c_scan_file_remove', '__CPROVER_file_local_scan_c_scan_file_insert',
      '__CPROVER_file_local_scan_c_scan_file_refresh', '__CPROVER_file_local_scan_c_scan_link']
def build(tier, seed):
    U = [vf.Unit('cmdline/scan.c', flags=vf.PATHMAX64, remove=RM), vf.Unit('cmdline/elem.c', flags=vf.PATHMAX64, remove=['file_alloc', 'file_rename', 'fs_file2par_find'])]
    J = []
    for sp in (1, 0):
        for os_ in (1, 0):
            J.append(vf.Job('C11/scan_file/%s-%s' % ('samepath' if sp else 'newpath', 'othersame' if os_ else 'otherdiff'), ['C11_scan.c', 'stubs/log_stubs.c'], units=U, entry='c11_scan_file',
                            defines=['SAMEPATH=%d' % sp, 'OTHERSAME=%d' % os_], cflags=vf.PATHMAX64, unwind=18, timeout=1800 if tier == 'quick' else 7200, mem_gb=10, native=False, decisive=r'VF:|unwinding', cost=100,
                            funcs=['scan_file', 'file_is_full_hashed_and_stable', 'file_copy', 'file_inode_compare_to_arg', 'file_path_compare_to_arg', 'file_namestamp_compare', 'file_pathstamp_compare', 'tommy_hashdyn_search'],
                            sample={'scanned path equals the known file\'s path': bool(sp), 'file on the other disk has the same name': bool(os_),
                                    'symbolic': 'size / time-stamp / nanoseconds / inode of the known file, of the other file and of the scanned entry, link count, already-met flag, block state and hash of the other file, rehash mark, inode/UUID persistence flags, --force-zero, --force-nocopy, diff vs sync'}))
    J.append(vf.Job('C11/scan_file/negctl', ['C11_scan.c', 'stubs/log_stubs.c'], units=U, entry='c11_negctl', defines=['NEGCTL'], cflags=vf.PATHMAX64, unwind=18, kind='negctl', native=False, decisive=r'VF:|unwinding',
                    sample={'wrong_oracle': 'a file with the same inode and size is kept whatever its time-stamp'}))
    return dict(jobs=J, bounds={'known files': '1 on the scanned disk, 1 on another disk', 'scanned entries': 1, 'blocks per file': 1},
        assumptions=['scan_file_keep / scan_file_remove / scan_file_insert / scan_link / file_alloc are recorders (block map allocation is outside)', 'one-bucket hash tables with the real search and compare callbacks; tommy_hash_u32 replaced by a simple function of the name',
                     'a path is met once per scan; a file met earlier with the same inode implies a second link'],
        trusted=['cbmc 6.11.0', 'kissat', 'reference classifier in harness/C11_scan.c'],
        outside=['directory walking, scan order, parallel scan threads', 'the removal pass and the diff verdict of state_diffscan', 'links and empty directories', 'list output', 'convergence (diff after sync reports nothing) is the stated argument of DESIGN.md C11, not decided'])
