import vf
CMDS = ['diff', 'sync', 'check', 'fix', 'dup', 'list', 'pool', 'rehash', 'scrub', 'status', 'touch', 'devices', 'up', 'down', 'smart']
def dispatch_jobs(prop, entries, cmds=CMDS, tier='quick'):
    U = [vf.Unit('cmdline/snapraid.c', flags=vf.PATHMAX64)]
    J = []
    for c in cmds:
        for e in entries:
            J.append(vf.Job('%s/dispatch/%s/%s' % (prop, e, c), ['C12_dispatch.c', 'stubs/log_stubs.c'], units=U, entry=e, defines=['CMD="%s"' % c], cflags=vf.PATHMAX64, unwind=26, timeout=900, mem_gb=6, native=False, decisive=r'VF:|unwinding',
                            funcs=['main'], cost=5, sample={'command': c, 'options': 'none', 'callee results (failing sync/check/scrub, need_write, lock file configured)': 'symbolic'}))
    return J
def build(tier, seed):
    J = dispatch_jobs('C12', ['c12_dispatch'], tier=tier)
    J.append(vf.Job('C12/dispatch/negctl', ['C12_dispatch.c', 'stubs/log_stubs.c'], units=[vf.Unit('cmdline/snapraid.c', flags=vf.PATHMAX64)], entry='c12_negctl2', defines=['CMD="sync"', 'NEGCTL'], cflags=vf.PATHMAX64, unwind=26, kind='negctl', native=False, decisive=r'VF:|unwinding',
                    sample={'wrong_oracle': 'sync never saves the content'}))
    import C12_flags
    J += C12_flags.jobs(tier, seed)
    return dict(jobs=J, bounds={'commands': CMDS, 'options': 'none on the command line (getopt_long returns -1); option-dependent dispatch (e.g. --test-kill-after-sync) outside'},
        assumptions=['every callee of main() is a recorder returning an arbitrary result: what is decided is which mutating entry points a command can reach and in which order',
                     'that state_check(fix=0), state_scrub, state_sync themselves respect the property is the subject of the stripe-level harnesses (C05 write-back guard, C06 "sync never writes a data file")'],
        trusted=['cbmc 6.11.0', 'kissat', 'recorder stubs'],
        outside=['pool / touch internals', 'log and lock file creation', 'options that alter dispatch'])
