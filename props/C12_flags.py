def jobs(tier, seed):
    return []
