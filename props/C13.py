import vf
def build(tier, seed):
    quick = tier == 'quick'
    U = [vf.Unit('cmdline/io.c', flags=vf.PATHMAX64)]
    funcs = ['io_reader_step', 'io_writer_step', 'io_task_read_thread', 'io_parity_write_thread', 'io_read_next_thread', 'io_write_next_thread', 'io_reader_sched', 'io_writer_sched', 'io_writer_sched_empty', 'io_position_next']
    nrd, nwr = (2, 2) if quick else (3, 3)
    D = ['NRD=%d' % nrd, 'NWR=%d' % nwr]
    J = []
    iomaxs = [3, 4, 128] if quick else [3, 4, 5, 7, 8, 16, 31, 64, 127, 128]
    uws = ['__CPROVER_file_local_C13_io_c_any_state.2:130', '__CPROVER_file_local_io_c_io_position_next.0:10', 'c13_read_next.0:10', 'c13_read_next.1:10', 'c13_read_next.2:10', 'c13_read_next.3:10']
    for iom in iomaxs:
      for e in ('c13_reader_step', 'c13_writer_step', 'c13_task_read', 'c13_parity_write', 'c13_read_next', 'c13_write_next'):
        slots = [None]
        if e in ('c13_read_next', 'c13_write_next'):
            slots = sorted(set([0, 1, iom - 2, iom - 1]))
        for sl in slots:
            J.append(vf.Job('C13/%s/iomax%d%s' % (e, iom, '' if sl is None else '-slot%d' % sl), ['C13_io.c', 'stubs/log_stubs.c'], units=U, entry=e,
                        defines=D + ['IOMAX=%d' % iom] + ([] if sl is None else ['RIDX=%d' % sl]), cflags=vf.PATHMAX64, unwind=6, unwindset=uws,
                        timeout=1200 if quick else 3600, mem_gb=8, funcs=funcs, cost=20, native=False,
                        sample={'entry': e, 'io_max': iom, 'slot being left': 'symbolic' if sl is None else sl, 'reader_index/writer_index/worker indexes/done/pending lists': 'symbolic under the ring invariant', 'representative readers': nrd, 'writers': nwr, 'wake-ups per step<=': 2}))
    J.append(vf.Job('C13/negctl', ['C13_io.c', 'stubs/log_stubs.c'], units=U, entry='c13_negctl', defines=D + ['NEGCTL', 'IOMAX=4'], cflags=vf.PATHMAX64, unwind=6, unwindset=uws, kind='negctl', native=False,
                    flags=['--max-field-sensitivity-array-size', '8'], sample={'wrong_oracle': 'a reader may never sit just before reader_index'}))
    return dict(jobs=J, bounds={'io_max': iomaxs, 'representative workers': [nrd, nwr], 'spurious wake-ups per step': 2, 'positions in the plan': 8},
        assumptions=['rely-guarantee: while a thread waits, every other thread may do anything that preserves the ring invariant and leaves the waiting thread\'s own fields unchanged',
                     'mutex / condition variables are ghost flags (pthread semantics trusted)', 'PATH_MAX shrunk to 64'],
        trusted=['cbmc 6.11.0', 'kissat', 'thread_* stubs', 'the ring invariant stated in harness/C13_io.c (checked to be inductive for every step)'],
        outside=['termination / fairness (liveness)', 'the per-disk scan threads of scan.c', 'io_start_thread / io_stop_thread thread creation and join', 'no native replay: the steps are entered from arbitrary invariant states, which a native run cannot set up through the public API'])
