import vf, C12
def build(tier, seed):
    J = C12.dispatch_jobs('C14', ['c14_lock_refused'], cmds=['sync', 'fix', 'scrub', 'check', 'touch', 'pool', 'rehash', 'diff'], tier=tier)
    J.append(vf.Job('C14/dispatch/negctl', ['C12_dispatch.c', 'stubs/log_stubs.c'], units=[vf.Unit('cmdline/snapraid.c', flags=vf.PATHMAX64)], entry='c12_negctl', defines=['CMD="sync"', 'NEGCTL'], cflags=vf.PATHMAX64, unwind=26, kind='negctl', native=False,
                    decisive=r'VF:|unwinding', sample={'wrong_oracle': 'a failed sync returns from main'}))
    import C14_interlocks
    J += C14_interlocks.jobs(tier, seed)
    return dict(jobs=J, bounds={'commands': 'sync fix scrub check touch pool rehash diff', 'options': 'none'},
        assumptions=['lock_lock answers "held by another process" (EWOULDBLOCK): the real flock semantics between processes are the kernel\'s and are trusted',
                     'callee recorders as in C12'],
        trusted=['cbmc 6.11.0', 'kissat', 'recorder stubs'],
        outside=['that a second process really gets EWOULDBLOCK (kernel)', 'UUID change limit'])
