import vf, C12
def build(tier, seed):
    J = C12.dispatch_jobs('C14', ['c14_lock_refused'], cmds=['sync', 'fix', 'scrub', 'check', 'touch', 'pool', 'rehash', 'diff'], tier=tier)
    J.append(vf.Job('C14/dispatch/negctl', ['C12_dispatch.c', 'stubs/log_stubs.c'], units=[vf.Unit('cmdline/snapraid.c', flags=vf.PATHMAX64)], entry='c12_negctl', defines=['CMD="sync"', 'NEGCTL'], cflags=vf.PATHMAX64, unwind=26, kind='negctl', native=False,
                    decisive=r'VF:|unwinding', sample={'wrong_oracle': 'a failed sync returns from main'}))
    import C14_interlocks
    J += C14_interlocks.jobs(tier, seed)
    # zero-size interlock: scan_file (shared with C11): the only refusal of scan_file, exactly under the documented condition, before anything is recorded
    import C11
    for j in C11.build(tier, seed)['jobs']:
        if 'samepath' in j.name:
            j.name = j.name.replace('C11/', 'C14/zero_size/'); J.append(j)
    return dict(jobs=J, bounds={'commands': 'sync fix scrub check touch pool rehash diff', 'options': 'none'},
        assumptions=['lock_lock answers "held by another process" (EWOULDBLOCK): the real flock semantics between processes are the kernel\'s and are trusted',
                     'callee recorders as in C12'],
        trusted=['cbmc 6.11.0', 'kissat', 'recorder stubs'],
        outside=['that a second process really gets EWOULDBLOCK (kernel)', 'UUID change limit', 'all-files-missing check of state_diffscan', 'block size / hash size / unknown disk checks while loading the content file'])
