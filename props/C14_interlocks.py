import vf
def jobs(tier, seed, prop='C14'):
    U = [vf.Unit('cmdline/sync.c', flags=vf.PATHMAX64, remove=['__CPROVER_file_local_sync_c_state_sync_process', '__CPROVER_file_local_sync_c_state_hash_process'])]
    J = []
    levels = [1, 2, 3] if tier == 'quick' else [1, 2, 3, 4, 6]
    for n in levels:
        for refusal in (0, 1):
            J.append(vf.Job('%s/state_sync/levels%d%s' % (prop, n, '-refusal' if refusal else ''), ['C14_statesync.c', 'stubs/log_stubs.c'], units=U, entry='c14_state_sync', defines=['NLEV=%d' % n] + (['EXPECT_REFUSAL'] if refusal else []),
                            cflags=vf.PATHMAX64, unwind=26, timeout=900, mem_gb=6, native=False, decisive=r'VF:|unwinding', funcs=['state_sync'], cost=10,
                            sample={'parity levels': n, 'blocks in each parity file / allocated / used': 'symbolic', 'force_full, force_realloc, prehash, need_write': 'symbolic', 'failures of create/resize/hash/process': 'symbolic'}))
    J.append(vf.Job('%s/state_sync/negctl' % prop, ['C14_statesync.c', 'stubs/log_stubs.c'], units=U, entry='c14_negctl', defines=['NLEV=1', 'NEGCTL'], cflags=vf.PATHMAX64, unwind=26, kind='negctl', native=False,
                    decisive=r'VF:|unwinding', sample={'wrong_oracle': 'content saved after the stripes'}))
    # block size / hash size interlocks: verbatim 'z' and 'y' record handlers of state_read_content
    import slicer
    US = [vf.Unit('cmdline/state.c', flags=vf.PATHMAX64, transform=slicer.slices(['z', 'y']), remove=['__CPROVER_file_local_state_c_decoding_error']), vf.Unit('cmdline/stream.c', flags=vf.PATHMAX64)]
    if prop == 'C14':
        for w, nm in ((0, 'blocksize'), (1, 'hashsize')):
            J.append(vf.Job('%s/records/%s' % (prop, nm), ['C14_records.c', 'stubs/log_stubs.c'], units=US, entry='c14_record_zy', defines=['WHICH=%d' % w], cflags=vf.PATHMAX64, unwind=10, timeout=900, mem_gb=8, native=False,
                            decisive=r'VF:|unwinding', funcs=['state_read_content (record handler %s, verbatim slice)' % ('z' if w == 0 else 'y'), 'sgetb32'], cost=20,
                            sample={'record': 'z' if w == 0 else 'y', 'recorded value': 'all 32-bit values', 'configured value': 'symbolic', 'no configuration file (auto-assign)': 'symbolic'}))
    if prop == 'C14':
        UA = [vf.Unit('cmdline/scan.c', flags=vf.PATHMAX64, transform=slicer.block_after('static int state_diffscan(', '/* check for disks where all the previously existing files where removed */', 'vf_slice_allmissing',
                      'struct snapraid_state* state, tommy_list scanlist, int is_diff', '\ttommy_node* i; tommy_node* j; int done; (void)i; (void)j; (void)done;'))]
        for nd in ((1, 2, 3) if tier == 'quick' else (1, 2, 3, 4, 6)):
            J.append(vf.Job('%s/allmissing/disks%d' % (prop, nd), ['C14_allmissing.c', 'stubs/log_stubs.c'], units=UA, entry='c14_allmissing', defines=['NDISK=%d' % nd], cflags=vf.PATHMAX64, unwind=nd + 2, timeout=900, mem_gb=8, native=False,
                            decisive=r'VF:|unwinding', funcs=['state_diffscan (verbatim block: disks where all previously existing files were removed)'], cost=20,
                            sample={'disks': nd, 'per-disk counters equal/move/restore/change/copy/insert/remove': 'all 32-bit values', '--force-empty, diff vs sync': 'symbolic'}))
        J.append(vf.Job('%s/allmissing/negctl' % prop, ['C14_allmissing.c', 'stubs/log_stubs.c'], units=UA, entry='c14_allmissing', defines=['NDISK=2', 'NEGCTL'], cflags=vf.PATHMAX64, unwind=4, kind='negctl', native=False,
                        decisive=r'VF:|unwinding', sample={'wrong_oracle': 'refusal expected even with --force-empty'}))
    return J
