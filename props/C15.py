import vf
def build(tier, seed):
    quick = tier == 'quick'
    nb = 4 if quick else 6
    U = [vf.Unit('cmdline/scrub.c', flags=vf.PATHMAX64, remove=['__CPROVER_file_local_scrub_c_state_scrub_process']), vf.Unit('cmdline/elem.c', flags=vf.PATHMAX64)]
    funcs = ['state_scrub', 'md', 'block_is_enabled', 'time_compare', 'info_get', 'info_get_time', 'info_get_bad', 'info_get_justsynced']
    J = [vf.Job('C15/c15_plan/blocks%d' % n, ['C15_scrub.c', 'stubs/log_stubs.c'], units=U, entry='c15_plan', defines=['NBLK=%d' % n], cflags=vf.PATHMAX64, unwind=n + 2, timeout=1500 if quick else 5400, mem_gb=8,
                funcs=funcs, cost=50, native=False, sample={'stripes': n, 'info words (time, bad, rehash, justsynced, unused)': 'symbolic', 'clock': 'symbolic', 'plan': 'full/new/bad/default/0..100 symbolic', 'olderthan': '-1..3650 symbolic'}) for n in range(1, nb + 1)] + [
         vf.Job('C15/negctl', ['C15_scrub.c', 'stubs/log_stubs.c'], units=U, entry='c15_negctl', defines=['NBLK=%d' % nb, 'NEGCTL'], cflags=vf.PATHMAX64, unwind=nb + 2, kind='negctl', native=False,
                sample={'wrong_oracle': 'quota rounded down'})]
    # one stripe of the real state_scrub_process (whole function) on the abstract data plane
    UP = [vf.Unit('cmdline/scrub.c', flags=vf.PATHMAX64)]
    pf = ['state_scrub_process', 'scrub_data_reader', 'scrub_parity_reader', 'block_is_enabled', 'info_get', 'info_set', 'info_make', 'info_set_bad', 'block_has_invalid_parity', 'block_has_file', 'block_has_updated_hash']
    shapes = [(2, 1, []), (2, 1, ['FAULTS']), (2, 1, ['REHASH']), (2, 2, ['FAULTS']), (2, 1, ['FAULTS', 'REHASH', 'REORDER']), (3, 1, ['FAULTS']), (2, 1, ['FAULTS', 'HOLES=1'])]
    if not quick: shapes += [(3, 2, ['FAULTS', 'REHASH']), (2, 3, ['FAULTS']), (4, 1, ['FAULTS']), (3, 1, ['FAULTS', 'HOLES=2']), (4, 2, ['FAULTS', 'REHASH']), (3, 6, ['FAULTS'])]
    for nd, lv, ex in shapes:
        J.append(vf.Job('C15/scrub_step/disks%d-level%d%s' % (nd, lv, ''.join('-' + e.lower().replace('=', '') for e in ex)), ['C15_process.c', 'stubs/log_stubs.c'], units=UP, entry='c15_scrub_step', defines=['ND=%d' % nd, 'LEVEL=%d' % lv] + ex, cflags=vf.PATHMAX64,
                        unwind=18, flags=['--max-field-sensitivity-array-size', '160'],
                        timeout=1800 if quick else 7200, mem_gb=12, native=False, decisive=r'VF:|unwinding', funcs=pf, cost=120,
                        sample={'disks': nd, 'parity levels': lv, 'per disk': 'hole / empty / BLK / CHG / REP / DELETED, data equal or different from the record, attributes changed' + (', open / read faults' if 'FAULTS' in ex else ''),
                                'per level': 'parity matching or not' + (', read faults' if 'FAULTS' in ex else ''), 'info word, clock': 'symbolic', 'hash migration pending': 'symbolic' if 'REHASH' in ex else False}))
    J.append(vf.Job('C15/scrub_step/negctl', ['C15_process.c', 'stubs/log_stubs.c'], units=UP, entry='c15_scrub_step', defines=['ND=2', 'LEVEL=1', 'NEGCTL'], cflags=vf.PATHMAX64, unwind=18, flags=['--max-field-sensitivity-array-size', '160'],
                    kind='negctl', native=False, decisive=r'VF:|unwinding', sample={'wrong_oracle': 'a silent error leaves the exit status at 0'}))
    return dict(jobs=J, bounds={'stripes': nb, 'olderthan_days': '<= 3650', 'clock': '32-bit seconds, after 1982', 'scrub step': 'one stripe, 2-3 disks (4 thorough), 1-2 parity levels (up to 6 thorough)'},
        assumptions=['plan jobs: state_scrub_process replaced by a recorder that runs the real block_is_enabled over all positions (the selection pass of the real loop)',
                     'scrub step: abstract data plane - block size 8 (one 64-bit token per block); memhash = injective uninterpreted function of (kind, token) with one table slot per call site (stubs/uf_slots.h); raid_gen yields per level the token the parity file returned or a different one (parity matches / differs: solver-chosen)',
                     'scrub step: io_* = contract stubs with single-thread semantics calling the real scrub_data_reader / scrub_parity_reader (io.c is C13); handle_* / parity_* / fs_par2block_find / fs_par2file_find / state_usage_* / state_progress are stubs over the ghost array; hole positions and reader arrival order enumerated', 'qsort = insertion sort through the real comparison callback',
                     'parity_allocated_size, time(), malloc stubbed; no parity levels opened (level 0)'],
        trusted=['cbmc 6.11.0', 'kissat', 'stubs'],
        outside=['scrub step: more than one stripe per run (autosave, error limit), the text of tags and messages', 'force_scrub_at / force_scrub_even test options', 'more stripes than the bound; "eventually every stripe" is the stated induction over the one-step progress lemma'])
