import vf
def build(tier, seed):
    quick = tier == 'quick'
    nb = 4 if quick else 6
    U = [vf.Unit('cmdline/scrub.c', flags=vf.PATHMAX64, remove=['__CPROVER_file_local_scrub_c_state_scrub_process']), vf.Unit('cmdline/elem.c', flags=vf.PATHMAX64)]
    funcs = ['state_scrub', 'md', 'block_is_enabled', 'time_compare', 'info_get', 'info_get_time', 'info_get_bad', 'info_get_justsynced']
    J = [vf.Job('C15/c15_plan/blocks%d' % n, ['C15_scrub.c', 'stubs/log_stubs.c'], units=U, entry='c15_plan', defines=['NBLK=%d' % n], cflags=vf.PATHMAX64, unwind=n + 2, timeout=1500 if quick else 5400, mem_gb=8,
                funcs=funcs, cost=50, native=False, sample={'stripes': n, 'info words (time, bad, rehash, justsynced, unused)': 'symbolic', 'clock': 'symbolic', 'plan': 'full/new/bad/default/0..100 symbolic', 'olderthan': '-1..3650 symbolic'}) for n in range(1, nb + 1)] + [
         vf.Job('C15/negctl', ['C15_scrub.c', 'stubs/log_stubs.c'], units=U, entry='c15_negctl', defines=['NBLK=%d' % nb, 'NEGCTL'], cflags=vf.PATHMAX64, unwind=nb + 2, kind='negctl', native=False,
                sample={'wrong_oracle': 'quota rounded down'})]
    return dict(jobs=J, bounds={'stripes': nb, 'olderthan_days': '<= 3650', 'clock': '32-bit seconds, after 1982'},
        assumptions=['state_scrub_process replaced by a recorder that runs the real block_is_enabled over all positions (the selection pass of the real loop)', 'qsort = insertion sort through the real comparison callback',
                     'parity_allocated_size, time(), malloc stubbed; no parity levels opened (level 0)'],
        trusted=['cbmc 6.11.0', 'kissat', 'stubs'],
        outside=['the per-stripe mark / clear / refresh rules of state_scrub_process (covered with C04/C08 harnesses when built)', 'force_scrub_at / force_scrub_even test options', 'more stripes than the bound; "eventually every stripe" is the stated induction over the one-step progress lemma'])
