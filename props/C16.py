import os, vf
U_UTIL = vf.Unit('cmdline/util.c')
U_REF = vf.Unit(os.path.join(vf.VERIF, 'ref/ref_hash.c'), flags=['-I' + os.path.join(vf.VERIF, 'ref')])
KINDS = {'murmur3': 'HASH_MURMUR3', 'spooky2': 'HASH_SPOOKY2', 'metro': 'HASH_METRO'}
def build(tier, seed):
    quick = tier == 'quick'
    J = []
    # message length enumerated (a symbolic length does not finish with any back end: measured > 15 min), message and seed symbolic;
    # back end z3: word-level term sharing decides the unchanged tree in seconds where bit-blasted multipliers take minutes
    Ls = {'murmur3': 49, 'spooky2': 49, 'metro': 49} if quick else {'murmur3': 100, 'spooky2': 230, 'metro': 130}
    for k, kc in KINDS.items():
        L = Ls[k]
        lens = list(range(0, L)) if quick else list(range(0, 66)) + list(range(66, L, 3)) + [L]
        for n in lens:
            LL = max(16, ((n + 15) // 16) * 16)
            J.append(vf.Job('C16/hash/%s/len%d' % (k, n), ['C16_hash.c', 'stubs/log_stubs.c'], units=[U_UTIL, U_REF], entry='c16_hash', defines=['L=%d' % LL, 'KIND=' + kc, 'LEN=%d' % n],
                        unwind=LL + 18, timeout=600 if quick else 3600, mem_gb=4, cost=2, funcs=['memhash', 'MurmurHash3_x86_128', 'SpookyHash128', 'MetroHash128'], solver='cvc5',
                        sample={'hash': k, 'length': n, 'message': 'symbolic', 'seed': 'symbolic 16 bytes'},
                        flags=['--max-field-sensitivity-array-size', '256']))
    J.append(vf.Job('C16/hash/murmur3-negctl', ['C16_hash.c', 'stubs/log_stubs.c'], units=[U_UTIL, U_REF], entry='c16_hash', defines=['L=32', 'KIND=HASH_MURMUR3', 'NEGCTL', 'LEN=17'],
                    unwind=50, kind='negctl', sample={'wrong_reference': 'one digest bit flipped for length 17, byte 16 == 0x99'}, flags=['--max-field-sensitivity-array-size', '256'], solver='cvc5'))
    import C09_crc
    J += C09_crc.jobs(tier, seed, prop='C16')
    import C09
    J += C09.stream_jobs('C16', tier, ['c10_b32', 'c10_b64', 'c10_bs'])
    return dict(jobs=J, level='translation_validation',
        bounds={'hash message lengths (each one job)': {k: '0..%d' % (v - 1) for k, v in Ls.items()}, 'crc length': 12 if quick else 24},
        assumptions=['the reference is a frozen copy of the pinned tree (ref/: murmur3.c, spooky2.c, metro.c, byte helpers), not a stored reference binary/array',
                     'CRC-32C and the varint codecs are compared with their mathematical definition instead of a frozen copy (version independent)',
                     'parity coefficients: see C02 tables obligations (definition-based, version independent)'],
        trusted=['cbmc 6.11.0', 'kissat', 'ref/ frozen sources'],
        outside=['message lengths above the bound (the block loops repeat)', 'loading stored arrays written by a reference binary (none exists in the sandbox)'],
        extra={'programs': len(J), 'disagreements_checked': 0})
