import vf
def build(tier, seed):
    unit = vf.Unit('cmdline/parity.c', flags=vf.PATHMAX64)
    funcs = ['parity_split_find', 'parity_write', 'parity_read', 'parity_size', 'parity_chsize', 'parity_handle_chsize',
             'parity_handle_fill', 'parity_handle_grow', 'parity_handle_shrink', 'parity_split_is_fixed', 'hbit_u64']
    ns, mb = (3, 4) if tier == 'quick' else (4, 16)
    J = []
    common = dict(units=[unit], harness=['C17_parity.c', 'stubs/log_stubs.c'], funcs=funcs, mem_gb=6, cflags=vf.PATHMAX64)
    import math
    bss = [64, 4096, 262144] if tier == 'quick' else [64, 128, 256, 1024, 4096, 65536, 262144, 1048576]
    for bs in bss:
        D = ['NS=%d' % ns, 'MAXBLK=%d' % mb, 'BS=%d' % bs]
        # loops: over splits (<= 8 = SPLIT_MAX, the struct bound), hbit_u64 halvings and the fill loop (<= bits of the largest size)
        bits = int(math.log2(bs * (2 * mb + 2))) + 2
        uw = ns + 1   # every loop over splits
        # hbit_u64 halves until 0: <= bits of the largest size; the fill loop handles one bit above the block bits per iteration
        fillb = int(math.log2(2 * mb + 2)) + 3
        uws = ['hbit_u64.0:%d' % bits, '__CPROVER_file_local_parity_c_parity_handle_fill.0:%d' % fillb]
        for e in ('c17_find', 'c17_rw', 'c17_chsize', 'c17_fill', 'c17_history'):
            J.append(vf.Job('C17/%s/bs%d' % (e, bs), entry=e, defines=D, unwind=uw, unwindset=uws, timeout=900 if tier == 'quick' else 3600,
                        sample={'entry': e, 'splits<=': ns, 'blocks_per_split<=': mb, 'block_size': bs, 'unwind': uw, 'unwindset': uws}, cost=5, **common))
    uw = ns + 1
    J.append(vf.Job('C17/negctl', entry='c17_negctl', defines=['NS=%d' % ns, 'MAXBLK=%d' % mb, 'BS=64', 'NEGCTL'], unwind=uw, kind='negctl', sample={'wrong_oracle': 'local offset shifted by one block'}, **common))
    return dict(jobs=J,
        bounds={'splits': ns, 'blocks_per_split': mb, 'block_size': bss, 'unwind': 'per job: max(9, bits of largest size + 2)', 'resizes_in_history': 2},
        assumptions=['abstract file system: one file per split with size and capacity; grow succeeds iff new size <= capacity; shrink always succeeds',
                     'log_*/bw_limit/advise_* are empty stubs; allocation failure out of scope'],
        trusted=['cbmc 6.11.0', 'kissat', 'C17 abstract FS stubs (fallocate/ftruncate/fstat/pread/pwrite)'],
        outside=['more splits/blocks than the bound', 'real file-system behaviour (sparse files, ENOSPC on pwrite)', 'parity_create/parity_open open() handling',
                 'concatenation == single-file parity follows from the bijection + C06 and is stated, not re-proved'])
