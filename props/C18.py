import vf
def build(tier, seed):
    quick = tier == 'quick'
    pl, sl, nr = (4, 6, 2) if quick else (5, 7, 3)
    D = ['PL=%d' % pl, 'SL=%d' % sl, 'NR=%d' % nr]
    U = [vf.Unit('cmdline/elem.c', flags=vf.PATHMAX64), vf.Unit('cmdline/support.c', flags=vf.PATHMAX64, remove=['log_fatal', 'log_tag', 'log_error', 'log_expected', 'log_flush', 'msg_status', 'msg_info', 'msg_progress', 'msg_bar', 'msg_verbose', 'msg_flush', 'malloc_nofail'])]
    funcs = ['filter_alloc_file', 'filter_apply', 'filter_recurse', 'filter_element', 'filter_path', 'filter_subdir', 'filter_emptydir', 'filter_content', 'pathcpy', 'pathimport', 'pathprint', 'pathcmp']
    J = []
    uw = max(pl, sl) + 9
    for e in ('c18_alloc', 'c18_content'):
        J.append(vf.Job('C18/' + e, ['C18_filter.c', 'stubs/log_stubs.c'], units=U, entry=e, defines=D, cflags=vf.PATHMAX64, unwind=uw, unwindset=['fnmatch.0:17'],
                        timeout=1200 if quick else 5400, mem_gb=8, funcs=funcs, cost=30,
                        sample={'entry': e, 'pattern_bytes<=': pl, 'path_bytes<=': sl, 'fnmatch': 'uninterpreted consistent function'}))
    shapes = ['a', 'a/b', 'a/a', 'a/b/c', 'a/a/b', 'a/b/a', 'a/b/b', 'a/a/a'] + ([] if quick else ['a/b/c/d', 'a/b/a/b', 'ab/c'])
    for sh in shapes:
      for n in range(0, nr + 1):
        if quick and n == 2 and sh not in ('a/b', 'a/a/b'):
            continue
        J.append(vf.Job('C18/c18_rules/%s/rules%d' % (sh.replace('/', '_'), n), ['C18_filter.c', 'stubs/log_stubs.c'], units=U, entry='c18_rules', defines=['PL=%d' % pl, 'NR=%d' % n, 'PATH_STR="%s"' % sh, 'SL=8'], cflags=vf.PATHMAX64, unwind=uw, unwindset=['fnmatch.0:17'],
                        timeout=1200 if quick else 5400, mem_gb=8, funcs=funcs, cost=30,
                        sample={'entry': 'c18_rules', 'path_structure': sh, 'rules': n, 'rule kind/direction/count, entry point, matcher answers': 'symbolic'}))
    J.append(vf.Job('C18/negctl', ['C18_filter.c', 'stubs/log_stubs.c'], units=U, entry='c18_negctl', defines=D + ['NEGCTL'], cflags=vf.PATHMAX64, unwind=uw, unwindset=['fnmatch.0:17'],
                    kind='negctl', sample={'wrong_oracle': 'last matching rule wins'}))
    return dict(jobs=J, bounds={'pattern_bytes': pl, 'path_bytes': sl, 'rules': nr},
        assumptions=['fnmatch (libc on Linux) is an uninterpreted function, consistent on equal (pattern, string, flags); glob semantics themselves are outside',
                     'PATH_MAX shrunk to 64 for the embedded path buffers'],
        trusted=['cbmc 6.11.0', 'kissat', 'reference rule evaluator written from snapraid.txt'],
        outside=['glob matching itself (libc)', 'longer patterns/paths/rule lists', 'scan-time use of the filters (scan.c) and -f/-d/-m/-e selection (state_filter)'])
