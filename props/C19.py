import vf
def build(tier, seed):
    U = [vf.Unit('cmdline/import.c', flags=vf.PATHMAX64), vf.Unit('cmdline/search.c', flags=vf.PATHMAX64)]
    J = []
    for e in ('c19_import_fetch', 'c19_search_compare'):
        J.append(vf.Job('C19/fetch/' + e, ['C19_fetch.c', 'stubs/log_stubs.c'], units=U, entry=e, cflags=vf.PATHMAX64, unwind=74, timeout=1800, mem_gb=8, native=False, decisive=r'VF:|unwinding',
                        funcs=['state_import_fetch', 'search_file_compare', 'import_block_hash_compare', 'import_block_prevhash_compare'], cost=50,
                        sample={'entry': e, 'block': 64, 'recorded content / bytes delivered by the candidate file (decoy) / lengths / attributes': 'symbolic', 'hash migration': 'symbolic'}))
    J.append(vf.Job('C19/fetch/negctl', ['C19_fetch.c', 'stubs/log_stubs.c'], units=U, entry='c19_negctl', defines=['NEGCTL'], cflags=vf.PATHMAX64, unwind=74, kind='negctl', native=False, decisive=r'VF:|unwinding',
                    sample={'wrong_oracle': 'an import never succeeds'}))
    # pre-hash: a mismatch stops the sync before any parity is resized or overwritten (state_sync protocol)
    import C14_interlocks
    J += [j for j in C14_interlocks.jobs(tier, seed, prop='C19') if 'refusal' not in j.name and 'negctl' not in j.name]
    # a repair never accepts a reconstruction that does not hash to the recorded value (decode layer, REP shapes)
    import repairgen
    for sh, lv in ((['REPbad', 'BLK'], 1), (['REP', 'BLKbad'], 2)):
        J.append(repairgen.job('C19', sh, lv, timeout=1800 if tier == 'quick' else 7200))
    # copy detection during scan: hashes inherited only from a fully hashed stable file with the same name, size and time-stamp, and only provisionally (scan_file, shared with C11)
    import C11
    for j in C11.build(tier, seed)['jobs']:
        if 'othersame' in j.name:
            j.name = j.name.replace('C11/', 'C19/copy_detection/'); J.append(j)
    # in-sync verification of inherited hashes: one stripe of the real state_sync_process with copy-detected (REP) blocks
    import syncstep
    J += syncstep.jobs('C19', tier)
    import C10_info
    J += [j for j in C10_info.record_jobs('C19', tier) if '/f/blocks2-run1-firstp/hash16' in j.name]
    return dict(jobs=J, bounds={'block': 64, 'disks': 2},
        assumptions=syncstep.ASSUMPTIONS + ['memhash = injective uninterpreted function (keyed by kind and seed)', 'hash table lookup replaced by the real compare callback on one candidate', 'state_sync protocol with recorder callees'],
        trusted=['cbmc 6.11.0', 'kissat', 'stubs'],
        outside=['directory import walking', '--force-nocopy handling while loading'])
