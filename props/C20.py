import vf
def build(tier, seed):
    quick = tier == 'quick'
    sl = 4 if quick else 6
    rm = ['log_fatal', 'log_tag', 'log_error', 'log_expected', 'log_flush', 'msg_status', 'msg_info', 'msg_progress', 'msg_bar', 'msg_verbose', 'msg_flush', 'malloc_nofail']
    US = [vf.Unit('cmdline/support.c', flags=vf.PATHMAX64, remove=rm)]
    UD = [vf.Unit('cmdline/dup.c', flags=vf.PATHMAX64), vf.Unit('cmdline/elem.c', flags=vf.PATHMAX64, remove=['fs_file2block_get'])]
    J = []
    for e, U, fn in (('c20_esc_tag', US, ['esc_tag']), ('c20_esc_shell', US, ['esc_shell_multi']), ('c20_dupkey', UD, ['hash_alloc', 'block_has_updated_hash', 'file_block'])):
        J.append(vf.Job('C20/' + e, ['C20_report.c', 'stubs/log_stubs.c'], units=U, entry=e, defines=['SLEN=%d' % sl], cflags=vf.PATHMAX64, unwind=max(2 * sl + 4, 36), timeout=1500 if quick else 5400, mem_gb=8,
                        funcs=fn, cost=30, native=(e != 'c20_dupkey'), sample={'entry': e, 'name_bytes<=': sl, 'bytes': 'arbitrary non-NUL'}))
    J.append(vf.Job('C20/negctl', ['C20_report.c', 'stubs/log_stubs.c'], units=US, entry='c20_negctl', defines=['SLEN=%d' % sl, 'NEGCTL'], cflags=vf.PATHMAX64, unwind=2 * sl + 4, kind='negctl', sample={'wrong_oracle': 'at most one escaped byte'}))
    return dict(jobs=J, bounds={'name_bytes': sl, 'blocks_per_file': 2, 'hash_size': [8, 16]},
        assumptions=['memhash replaced by a recorder in the dup-key harness (collision-freeness of the block hash is an assumption of the property, not decided here)', 'PATH_MAX 64 (ESC_MAX 129)'],
        trusted=['cbmc 6.11.0', 'kissat'],
        outside=['pool (symlink tree maintenance on a real directory tree)', 'list / status terminal formatting and their directory walks', 'longer names'])
