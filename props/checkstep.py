"""One stripe of the real state_check_process() (check / check -a / fix) with the real block_is_enabled and file_post on the abstract data
plane: harness/C12_check.c.  repair() is a contract stub (decided in C01 / C05)."""
import vf
FUNCS = ['state_check_process', 'file_post', 'block_is_enabled', 'block_has_invalid_parity', 'block_has_file', 'file_block_is_last', 'file_flag_set/has', 'tommy_hashdyn_search', 'info_get']
def job(prop, nd=2, lv=1, extra=(), tag='', kind='obligation', timeout=1800, sample_extra=None):
    U = [vf.Unit('cmdline/check.c', flags=vf.PATHMAX64, remove=['__CPROVER_file_local_check_c_repair'])]
    D = ['ND=%d' % nd, 'LEVEL=%d' % lv] + list(extra)
    sample = {'disks': nd, 'parity levels': lv, 'fix / check / audit-only': 'symbolic' if not any(e.startswith('FIX=') for e in extra) else [e for e in extra if e.startswith('FIX=')][0],
              'per disk': 'block state, file filtered out, missing, attributes changed (size larger / smaller, time), data equal or different from the record, read fault',
              'per level': 'parity matching / differing / unreadable, excluded by the filter', 'repair()': 'contract stub: fails or leaves the recorded content (pending block: possibly previous content flagged out of date)',
              'synced-only filter, info word, stop request': 'symbolic'}
    if sample_extra: sample.update(sample_extra)
    return vf.Job('%s/check_step/disks%d-level%d%s' % (prop, nd, lv, tag), ['C12_check.c', 'stubs/log_stubs.c'], units=U, entry='c12_check_step', defines=D, cflags=vf.PATHMAX64, unwind=18, timeout=timeout, mem_gb=12,
                  funcs=FUNCS, cost=150, native=False, kind=kind, decisive=r'VF:|unwinding', flags=['--max-field-sensitivity-array-size', '160'], sample=sample)
def jobs(prop, tier):
    quick = tier == 'quick'; to = 1800 if quick else 7200
    J = []
    if prop == 'C12':
        J.append(job(prop, 2, 1, ['FIX=1'], '-fix', timeout=to)); J.append(job(prop, 2, 1, ['FIX=0'], '-check', timeout=to))
        J.append(job(prop, 2, 1, ['FIX=1', 'HOLES=1'], '-fix-hole', timeout=to))
        if not quick:
            J.append(job(prop, 2, 2, ['FIX=1'], '-fix', timeout=to)); J.append(job(prop, 3, 1, ['FIX=1'], '-fix', timeout=to)); J.append(job(prop, 2, 1, ['FIX=1', 'NOPAR=1'], '-fix-noparity', timeout=to)); J.append(job(prop, 2, 1, ['FIX=1', 'REHASH'], '-fix-rehash', timeout=to))
        J.append(job(prop, 2, 1, ['FIX=1', 'NEGCTL'], '-negctl', kind='negctl', sample_extra={'wrong_oracle': 'fix never sets a modification time'}))
    elif prop == 'C04':
        J.append(job(prop, 2, 1, ['FIX=0'], '-check', timeout=to))
        if not quick:
            J.append(job(prop, 2, 2, ['FIX=0'], '-check', timeout=to)); J.append(job(prop, 3, 1, ['FIX=0'], '-check', timeout=to)); J.append(job(prop, 2, 1, ['FIX=0', 'REHASH'], '-check-rehash', timeout=to))
    return J
ASSUMPTIONS = ['check step: abstract data plane (block size 8, one 64-bit token per block); memhash = injective uninterpreted function; repair() replaced by its contract (decided by the C01 / C05 obligations on the real repair / repair_step / blockcmp)',
               'check step: handle_* / parity_* / rename / remove / fs_par2block_find / fs_par2file_find / state_progress are stubs over a ghost array; one block per file (so every block is the last of its file); no links, directories or empty files; inode sets empty (no inode collision)',
               'check step: default expectations (no --test-expect-*), no -e / bad-block filters (the filter is represented by per-file and per-parity exclusion flags)']
