import vf
def jobs():
    J = []
    for e, kind in (('sc_table2d', 'obligation'), ('sc_punning', 'obligation'), ('sc_offbyone', 'negctl')):
        J.append(vf.Job('engine/' + e, 'engine/selfcheck.c', entry=e, unwind=10, kind=kind, timeout=120, mem_gb=2,
                        sample={'engine_selfcheck': e}, cost=0.1))
    return J
