"""One stripe of the real state_sync_process() (whole function, real sync_data_reader / sync_parity_writer) on the abstract data
plane: harness/C06_sync.c.  Shared by C06 (the invariant), C08 (faults), C19 (copy-detected blocks), C07/C12 (nothing else
touched).  Stripe shapes (block state per disk) and hole positions are enumerated, everything else is symbolic."""
import vf, itertools
FUNCS = ['state_sync_process', 'sync_data_reader', 'sync_parity_writer', 'block_is_enabled', 'failed_compare_by_index', 'block_state_get/set', 'block_has_invalid_parity', 'block_has_file', 'block_has_updated_hash', 'hash_is_unique', 'info_get', 'info_set', 'info_make']
KN = {'HOLE': 0, 'EMPTY': 1, 'BLK': 2, 'CHG': 3, 'REP': 4, 'DEL': 5}
INV = r'C06: stripe recorded as synced'
def sync_job(prop, shape, lv, faults=False, wfaults=False, reorder=False, extra_defines=(), tag='', kind='obligation', finding_key=None, timeout=1800, decisive=None, sample_extra=None):
    U = [vf.Unit('cmdline/sync.c', flags=vf.PATHMAX64)]
    nd = len(shape)
    D = ['ND=%d' % nd, 'LEVEL=%d' % lv, 'KINDS=' + ','.join(str(KN[k]) for k in shape)] + (['FAULTS'] if faults else []) + (['WFAULTS'] if wfaults else []) + (['REORDER'] if reorder else []) + list(extra_defines)
    name = '%s/sync_step/%s/level%d%s%s%s%s' % (prop, '-'.join(shape), lv, '-faults' if faults else '', '-wfaults' if wfaults else '', '-reorder' if reorder else '', tag)
    sample = {'stripe shape (block state per disk)': shape, 'parity levels': lv, 'read faults': 'symbolic open/stat/read faults per disk' if faults else 'none', 'parity write faults': 'symbolic per level' if wfaults else 'none',
              'reader arrival order': 'reversed' if reorder else 'disk order',
              'symbolic': 'past-hash kinds, content tokens (recorded / encoded by parity / on disk now), per level old or new parity, info word, stop request'}
    if sample_extra: sample.update(sample_extra)
    return vf.Job(name, ['C06_sync.c', 'stubs/log_stubs.c'], units=U, entry='c06_sync_step', defines=D,
                  cflags=vf.PATHMAX64, unwind=max(nd, 8) + 9, timeout=timeout, mem_gb=12, funcs=FUNCS, cost=300 if (faults or 'BLK' in shape) else 60, native=False, kind=kind, finding_key=finding_key, decisive=decisive,
                  flags=['--max-field-sensitivity-array-size', '256'], sample=sample)
def all_pairs():
    ks = ['HOLE', 'EMPTY', 'BLK', 'CHG', 'REP', 'DEL']
    return [[a, b] for a, b in itertools.product(ks, ks) if not (a in ('HOLE', 'EMPTY') and b in ('HOLE', 'EMPTY'))]
def jobs(prop, tier):
    quick = tier == 'quick'
    to = 1800 if quick else 7200
    J = []
    if prop == 'C06':
        sh = [['CHG', 'BLK'], ['BLK', 'BLK'], ['REP', 'DEL'], ['CHG', 'EMPTY'], ['DEL', 'BLK'], ['CHG', 'CHG'], ['HOLE', 'CHG']] if quick else all_pairs()
        for s in sh: J.append(sync_job(prop, s, 1, timeout=to))
        J.append(sync_job(prop, ['CHG', 'REP'], 1, reorder=True, timeout=to))
        J.append(sync_job(prop, ['CHG', 'DEL'], 2, timeout=to))
        if not quick:
            for s in (['CHG', 'BLK'], ['REP', 'DEL'], ['BLK', 'BLK'], ['CHG', 'CHG']): J.append(sync_job(prop, s, 2, timeout=to))
            for s in (['CHG', 'BLK', 'DEL'], ['BLK', 'REP', 'HOLE'], ['CHG', 'CHG', 'EMPTY']): J.append(sync_job(prop, s, 1, timeout=to))
            J.append(sync_job(prop, ['CHG', 'BLK'], 3, timeout=to))
        # listed finding F-C06-a: with the contract of the threaded I/O layer (writes only queued) the final parity_sync() precedes the queued writes
        J.append(sync_job(prop, ['CHG', 'EMPTY'], 1, extra_defines=['DEFERRED_WRITES'], tag='-deferred-onlyF-C06-a', kind='known', finding_key='F-C06-a', decisive=r'flushed before the function returns',
                          sample_extra={'I/O contract': 'threaded layer: io_write_next only queues the write, the writer performs it before io_stop returns'}))
        J.append(sync_job(prop, ['CHG', 'EMPTY'], 1, extra_defines=['NEGCTL'], tag='-negctl', kind='negctl', sample_extra={'wrong_oracle': 'a pending block stays pending after a faultless sync'}))
    elif prop == 'C08':
        fs = [['CHG', 'BLK'], ['REP', 'BLK']] if quick else [['CHG', 'BLK'], ['REP', 'BLK'], ['BLK', 'BLK'], ['CHG', 'CHG'], ['CHG', 'DEL'], ['REP', 'REP'], ['CHG', 'EMPTY'], ['DEL', 'BLK']]
        for s in fs: J.append(sync_job(prop, s, 1, faults=True, timeout=to))
        ws = [['CHG', 'BLK']] if quick else [['CHG', 'BLK'], ['REP', 'DEL'], ['CHG', 'CHG']]
        for s in ws: J.append(sync_job(prop, s, 1, wfaults=True, extra_defines=['EXCL_C08C'], tag='-exclF-C08-c', timeout=to))
        if not quick:
            J.append(sync_job(prop, ['CHG', 'BLK'], 2, faults=True, wfaults=True, extra_defines=['EXCL_C08C'], tag='-exclF-C08-c', timeout=to))
            J.append(sync_job(prop, ['CHG', 'BLK', 'REP'], 1, faults=True, timeout=to))
        J.append(sync_job(prop, ['CHG', 'EMPTY'], 1, wfaults=True, extra_defines=['ONLY_C08C'], tag='-onlyF-C08-c', kind='known', finding_key='F-C08-c', decisive=INV))
        J.append(sync_job(prop, ['CHG', 'EMPTY'], 1, wfaults=True, extra_defines=['ONLY_C08B', 'DEFERRED_WRITES'], tag='-deferred-onlyF-C08-b', kind='known', finding_key='F-C08-b', decisive=r'a failed parity write makes the command end with a failing status',
                          sample_extra={'I/O contract': 'threaded layer: the error of a queued write is counted when a later stripe is scheduled'}))
    elif prop == 'C19':
        sh = [['REP', 'BLK'], ['REP', 'EMPTY']] if quick else [['REP', 'BLK'], ['REP', 'EMPTY'], ['REP', 'REP'], ['REP', 'CHG'], ['REP', 'DEL'], ['HOLE', 'REP']]
        for s in sh: J.append(sync_job(prop, s, 1, timeout=to))
        if not quick: J.append(sync_job(prop, ['REP', 'BLK'], 2, timeout=to))
    return J
ASSUMPTIONS = ['sync step: abstract data plane - block size 8 (one 64-bit token per block); memhash = injective uninterpreted function of (kind, token) with one table slot per call site (stubs/uf_slots.h); raid_gen = fresh parity tokens + ghost record of the data vector they encode; raid_rec = contract stub (C03)',
               'sync step: io_* = contract stubs re-stating the single-thread semantics (every write performed and its error counted in its own stripe; io.c itself is decided in C13 / C08 mono); DEFERRED_WRITES jobs use the contract of the threaded layer instead (write queued, performed before io_stop returns)',
               'sync step: handle_* / parity_* / fs_par2block_find / fs_par2file_find / fs_deallocate / state_write / state_progress / state_usage_* are stubs over the ghost array',
               'sync step pre-state: every combination allowed by the documented meaning of the block states (elem.h:73-173); a CHG / DELETED block with a usable past hash was created by the scan of this run, so every parity level still encodes that previous content at its position (state.c clear_past_hash, sync.c:812-817, scan.c:286-300); a fully synced stripe satisfies the invariant',
               'sync step: no hash migration pending on the stripe; one stripe per run (autosave and multi-stripe effects outside)']
