import checkstep
def build(tier, seed):
    J = checkstep.jobs('C12', tier) + checkstep.jobs('C04', tier)
    J.append(checkstep.job('T', 2, 1, ['FIX=1', 'KINDS=2,3'], '-fix-BLK-CHG'))
    J.append(checkstep.job('T', 2, 1, ['FIX=1', 'KINDS=2,2'], '-fix-BLK-BLK'))
    return dict(jobs=J, bounds={}, assumptions=[], trusted=[], outside=[])
