/*
 * Copyright (C) 2019 Andrea Mazzoleni
 *
 * This program is free software: you can redistribute it and/or modify
 * it under the terms of the GNU General Public License as published by
 * the Free Software Foundation, either version 3 of the License, or
 * (at your option) any later version.
 *
 * This program is distributed in the hope that it will be useful,
 * but WITHOUT ANY WARRANTY; without even the implied warranty of
 * MERCHANTABILITY or FITNESS FOR A PARTICULAR PURPOSE.  See the
 * GNU General Public License for more details.
 *
 * You should have received a copy of the GNU General Public License
 * along with this program.  If not, see <http://www.gnu.org/licenses/>.
 */

/*
 * Derivative work from metrohash128.cpp
 *
 * metrohash128.cpp
 *
 * Copyright 2015-2018 J. Andrew Rogers
 *
 * Licensed under the Apache License, Version 2.0 (the "License");
 * you may not use this file except in compliance with the License.
 * You may obtain a copy of the License at
 *
 *     http://www.apache.org/licenses/LICENSE-2.0
 *
 * Unless required by applicable law or agreed to in writing, software
 * distributed under the License is distributed on an "AS IS" BASIS,
 * WITHOUT WARRANTIES OR CONDITIONS OF ANY KIND, either express or implied.
 * See the License for the specific language governing permissions and
 * limitations under the License.
 */

static const uint64_t k0 = 0xC83A91E1;
static const uint64_t k1 = 0x8648DBDB;
static const uint64_t k2 = 0x7BDEC03B;
static const uint64_t k3 = 0x2F5870A5;

void MetroHash128(const void* data, size_t size, const uint8_t* seed, uint8_t* digest)
{
	const uint8_t* ptr = data;
	uint64_t v[4];

	v[0] = (util_read64(seed) - k0) * k3;
	v[1] = (util_read64(seed + 8) + k1) * k2;

	if (size >= 32) {
		v[2] = (util_read64(seed) + k0) * k2;
		v[3] = (util_read64(seed + 8) - k1) * k3;

		do {
			v[0] += util_read64(ptr) * k0; ptr += 8; v[0] = util_rotr64(v[0], 29) + v[2];
			v[1] += util_read64(ptr) * k1; ptr += 8; v[1] = util_rotr64(v[1], 29) + v[3];
			v[2] += util_read64(ptr) * k2; ptr += 8; v[2] = util_rotr64(v[2], 29) + v[0];
			v[3] += util_read64(ptr) * k3; ptr += 8; v[3] = util_rotr64(v[3], 29) + v[1];
			size -= 32;
		} while (size >= 32);

		v[2] ^= util_rotr64(((v[0] + v[3]) * k0) + v[1], 21) * k1;
		v[3] ^= util_rotr64(((v[1] + v[2]) * k1) + v[0], 21) * k0;
		v[0] ^= util_rotr64(((v[0] + v[2]) * k0) + v[3], 21) * k1;
		v[1] ^= util_rotr64(((v[1] + v[3]) * k1) + v[2], 21) * k0;
	}

	if (size >= 16) {
		v[0] += util_read64(ptr) * k2; ptr += 8; v[0] = util_rotr64(v[0], 33) * k3;
		v[1] += util_read64(ptr) * k2; ptr += 8; v[1] = util_rotr64(v[1], 33) * k3;
		v[0] ^= util_rotr64((v[0] * k2) + v[1], 45) * k1;
		v[1] ^= util_rotr64((v[1] * k3) + v[0], 45) * k0;
		size -= 16;
	}

	if (size >= 8) {
		v[0] += util_read64(ptr) * k2; ptr += 8; v[0] = util_rotr64(v[0], 33) * k3;
		v[0] ^= util_rotr64((v[0] * k2) + v[1], 27) * k1;
		size -= 8;
	}

	if (size >= 4) {
		v[1] += util_read32(ptr) * k2; ptr += 4; v[1] = util_rotr64(v[1], 33) * k3;
		v[1] ^= util_rotr64((v[1] * k3) + v[0], 46) * k0;
		size -= 4;
	}

	if (size >= 2) {
		v[0] += util_read16(ptr) * k2; ptr += 2; v[0] = util_rotr64(v[0], 33) * k3;
		v[0] ^= util_rotr64((v[0] * k2) + v[1], 22) * k1;
		size -= 2;
	}

	if (size >= 1) {
		v[1] += util_read8(ptr) * k2; v[1] = util_rotr64(v[1], 33) * k3;
		v[1] ^= util_rotr64((v[1] * k3) + v[0], 58) * k0;
	}

	v[0] += util_rotr64((v[0] * k0) + v[1], 13);
	v[1] += util_rotr64((v[1] * k1) + v[0], 37);
	v[0] += util_rotr64((v[0] * k2) + v[1], 13);
	v[1] += util_rotr64((v[1] * k3) + v[0], 37);

	util_write64(digest, v[0]);
	util_write64(digest + 8, v[0]);
}

