/*
 * Copyright (C) 2011 Andrea Mazzoleni
 *
 * This program is free software: you can redistribute it and/or modify
 * it under the terms of the GNU General Public License as published by
 * the Free Software Foundation, either version 3 of the License, or
 * (at your option) any later version.
 *
 * This program is distributed in the hope that it will be useful,
 * but WITHOUT ANY WARRANTY; without even the implied warranty of
 * MERCHANTABILITY or FITNESS FOR A PARTICULAR PURPOSE.  See the
 * GNU General Public License for more details.
 *
 * You should have received a copy of the GNU General Public License
 * along with this program.  If not, see <http://www.gnu.org/licenses/>.
 */

/*
 * Derivative work from MurmorHash3.cpp revision r136
 *
 * SMHasher & MurmurHash
 * http://code.google.com/p/smhasher/
 *
 * Exact source used as reference:
 * http://code.google.com/p/smhasher/source/browse/trunk/MurmurHash3.cpp?spec=svn136&r=136
 */

// MurmurHash3 was written by Austin Appleby, and is placed in the public
// domain. The author hereby disclaims copyright to this source code.

/* Finalization mix - force all bits of a hash block to avalanche */
static inline uint32_t fmix32(uint32_t h)
{
	h ^= h >> 16;
	h *= 0x85ebca6b;
	h ^= h >> 13;
	h *= 0xc2b2ae35;
	h ^= h >> 16;
	return h;
}

/*
 * Warning!
 * Don't declare these variables static, otherwise the gcc optimizer
 * may generate very slow code for multiplication with these constants,
 * like:

   -> .cpp
   k1 *= c1;
   -> .asm
   152:   8d 14 80                lea    (%eax,%eax,4),%edx
   155:   8d 14 90                lea    (%eax,%edx,4),%edx
   158:   c1 e2 03                shl    $0x3,%edx
   15b:   29 c2                   sub    %eax,%edx
   15d:   8d 14 d2                lea    (%edx,%edx,8),%edx
   160:   8d 14 90                lea    (%eax,%edx,4),%edx
   163:   8d 14 d0                lea    (%eax,%edx,8),%edx
   166:   8d 14 90                lea    (%eax,%edx,4),%edx
   169:   8d 14 50                lea    (%eax,%edx,2),%edx
   16c:   8d 14 90                lea    (%eax,%edx,4),%edx
   16f:   8d 14 92                lea    (%edx,%edx,4),%edx
   172:   8d 14 50                lea    (%eax,%edx,2),%edx
   175:   8d 04 d0                lea    (%eax,%edx,8),%eax
   178:   8d 14 c5 00 00 00 00    lea    0x0(,%eax,8),%edx
   17f:   29 d0                   sub    %edx,%eax

 * resulting in speeds of 500 MB/s instead of 3000 MB/s.
 *
 * Verified with gcc 4.4.4 compiling with :
 *
 * g++ -g -c -O2 MurmurHash3.cpp -o MurmurHash3.o
 */
uint32_t c1 = 0x239b961b;
uint32_t c2 = 0xab0e9789;
uint32_t c3 = 0x38b34ae5;
uint32_t c4 = 0xa1e38b93;

void MurmurHash3_x86_128(const void* data, size_t size, const uint8_t* seed, void* digest)
{
	size_t nblocks;
	const uint32_t* blocks;
	const uint32_t* end;
	size_t size_remainder;
	uint32_t h1, h2, h3, h4;

	h1 = util_read32(seed + 0);
	h2 = util_read32(seed + 4);
	h3 = util_read32(seed + 8);
	h4 = util_read32(seed + 12);

	nblocks = size / 16;
	blocks = data;
	end = blocks + nblocks * 4;

	/* body */
	while (blocks < end) {
		uint32_t k1 = blocks[0];
		uint32_t k2 = blocks[1];
		uint32_t k3 = blocks[2];
		uint32_t k4 = blocks[3];

#if WORDS_BIGENDIAN
		k1 = util_swap32(k1);
		k2 = util_swap32(k2);
		k3 = util_swap32(k3);
		k4 = util_swap32(k4);
#endif

		k1 *= c1; k1 = util_rotl32(k1, 15); k1 *= c2; h1 ^= k1;

		h1 = util_rotl32(h1, 19); h1 += h2; h1 = h1 * 5 + 0x561ccd1b;

		k2 *= c2; k2 = util_rotl32(k2, 16); k2 *= c3; h2 ^= k2;

		h2 = util_rotl32(h2, 17); h2 += h3; h2 = h2 * 5 + 0x0bcaa747;

		k3 *= c3; k3 = util_rotl32(k3, 17); k3 *= c4; h3 ^= k3;

		h3 = util_rotl32(h3, 15); h3 += h4; h3 = h3 * 5 + 0x96cd1c35;

		k4 *= c4; k4 = util_rotl32(k4, 18); k4 *= c1; h4 ^= k4;

		h4 = util_rotl32(h4, 13); h4 += h1; h4 = h4 * 5 + 0x32ac3b17;

		blocks += 4;
	}

	/* tail */
	size_remainder = size & 15;
	if (size_remainder != 0) {
		const uint8_t* tail = (const uint8_t*)blocks;

		uint32_t k1 = 0;
		uint32_t k2 = 0;
		uint32_t k3 = 0;
		uint32_t k4 = 0;

		switch (size_remainder) {
		case 15 : k4 ^= (uint32_t)tail[14] << 16; /* fallthrough */
		case 14 : k4 ^= (uint32_t)tail[13] << 8; /* fallthrough */
		case 13 : k4 ^= (uint32_t)tail[12] << 0; /* fallthrough */
			k4 *= c4; k4 = util_rotl32(k4, 18); k4 *= c1; h4 ^= k4;
			/* fallthrough */
		case 12 : k3 ^= (uint32_t)tail[11] << 24; /* fallthrough */
		case 11 : k3 ^= (uint32_t)tail[10] << 16; /* fallthrough */
		case 10 : k3 ^= (uint32_t)tail[ 9] << 8; /* fallthrough */
		case 9 : k3 ^= (uint32_t)tail[ 8] << 0; /* fallthrough */
			k3 *= c3; k3 = util_rotl32(k3, 17); k3 *= c4; h3 ^= k3;
			/* fallthrough */
		case 8 : k2 ^= (uint32_t)tail[ 7] << 24; /* fallthrough */
		case 7 : k2 ^= (uint32_t)tail[ 6] << 16; /* fallthrough */
		case 6 : k2 ^= (uint32_t)tail[ 5] << 8; /* fallthrough */
		case 5 : k2 ^= (uint32_t)tail[ 4] << 0; /* fallthrough */
			k2 *= c2; k2 = util_rotl32(k2, 16); k2 *= c3; h2 ^= k2;
			/* fallthrough */
		case 4 : k1 ^= (uint32_t)tail[ 3] << 24; /* fallthrough */
		case 3 : k1 ^= (uint32_t)tail[ 2] << 16; /* fallthrough */
		case 2 : k1 ^= (uint32_t)tail[ 1] << 8; /* fallthrough */
		case 1 : k1 ^= (uint32_t)tail[ 0] << 0; /* fallthrough */
			k1 *= c1; k1 = util_rotl32(k1, 15); k1 *= c2; h1 ^= k1;
			/* fallthrough */
		}
	}

	/* finalization */
	h1 ^= size; h2 ^= size; h3 ^= size; h4 ^= size;

	h1 += h2; h1 += h3; h1 += h4;
	h2 += h1; h3 += h1; h4 += h1;

	h1 = fmix32(h1);
	h2 = fmix32(h2);
	h3 = fmix32(h3);
	h4 = fmix32(h4);

	h1 += h2; h1 += h3; h1 += h4;
	h2 += h1; h3 += h1; h4 += h1;

	util_write32(digest + 0, h1);
	util_write32(digest + 4, h2);
	util_write32(digest + 8, h3);
	util_write32(digest + 12, h4);
}

