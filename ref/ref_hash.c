/* frozen copy of the pinned tree's block-hash implementations (e695936), every symbol renamed ref_*.
 * Used only by C16 ("bit-for-bit stable against the reference version"). */
#include "config.h"
#include <stdint.h>
#include <string.h>
#include <stddef.h>
#define c1 ref_c1
#define c2 ref_c2
#define c3 ref_c3
#define c4 ref_c4
#define MurmurHash3_x86_128 ref_MurmurHash3_x86_128
#define SpookyHash128 ref_SpookyHash128
#define MetroHash128 ref_MetroHash128
#define fmix32 ref_fmix32
#define util_rotl32 ref_util_rotl32
#define util_rotl64 ref_util_rotl64
#define util_rotr64 ref_util_rotr64
#define util_read8 ref_util_read8
#define util_read16 ref_util_read16
#define util_read32 ref_util_read32
#define util_read64 ref_util_read64
#define util_write32 ref_util_write32
#define util_write64 ref_util_write64
#include "util_bytes.h"
#include "murmur3.c"
#include "spooky2.c"
#include "metro.c"
