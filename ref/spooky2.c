/*
 * Copyright (C) 2013 Andrea Mazzoleni
 *
 * This program is free software: you can redistribute it and/or modify
 * it under the terms of the GNU General Public License as published by
 * the Free Software Foundation, either version 3 of the License, or
 * (at your option) any later version.
 *
 * This program is distributed in the hope that it will be useful,
 * but WITHOUT ANY WARRANTY; without even the implied warranty of
 * MERCHANTABILITY or FITNESS FOR A PARTICULAR PURPOSE.  See the
 * GNU General Public License for more details.
 *
 * You should have received a copy of the GNU General Public License
 * along with this program.  If not, see <http://www.gnu.org/licenses/>.
 */

/*
 * Derivative work from SpookyV2.cpp/h
 *
 * WARNING!!!! Note that this implementation doesn't use the short hash optimization
 * resulting in different hashes for any length shorter than 192 bytes
 *
 * SpookyHash
 * http://burtleburtle.net/bob/hash/spooky.html
 *
 * Exact source used as reference:
 * http://burtleburtle.net/bob/c/SpookyV2.h
 * http://burtleburtle.net/bob/c/SpookyV2.cpp
 */

// Spooky Hash
// A 128-bit noncryptographic hash, for checksums and table lookup
// By Bob Jenkins.  Public domain.
//   Oct 31 2010: published framework, disclaimer ShortHash isn't right
//   Nov 7 2010: disabled ShortHash
//   Oct 31 2011: replace End, ShortMix, ShortEnd, enable ShortHash again
//   April 10 2012: buffer overflow on platforms without unaligned reads
//   July 12 2012: was passing out variables in final to in/out in short
//   July 30 2012: I reintroduced the buffer overflow
//   August 5 2012: SpookyV2: d = should be d += in short hash, and remove extra mix from long hash
//
// Up to 3 bytes/cycle for long messages.  Reasonably fast for short messages.
// All 1 or 2 bit deltas achieve avalanche within 1% bias per output bit.
//
// This was developed for and tested on 64-bit x86-compatible processors.
// It assumes the processor is little-endian.  There is a macro
// controlling whether unaligned reads are allowed (by default they are).
// This should be an equally good hash on big-endian machines, but it will
// compute different results on them than on little-endian machines.
//
// Google's CityHash has similar specs to SpookyHash, and CityHash is faster
// on new Intel boxes.  MD4 and MD5 also have similar specs, but they are orders
// of magnitude slower.  CRCs are two or more times slower, but unlike
// SpookyHash, they have nice math for combining the CRCs of pieces to form
// the CRCs of wholes.  There are also cryptographic hashes, but those are even
// slower than MD5.
//

#define Mix(data, s0, s1, s2, s3, s4, s5, s6, s7, s8, s9, s10, s11) \
	s0 += data[0];   s2 ^= s10;  s11 ^= s0;   s0 = util_rotl64(s0, 11);   s11 += s1; \
	s1 += data[1];   s3 ^= s11;  s0 ^= s1;   s1 = util_rotl64(s1, 32);   s0 += s2; \
	s2 += data[2];   s4 ^= s0;   s1 ^= s2;   s2 = util_rotl64(s2, 43);   s1 += s3; \
	s3 += data[3];   s5 ^= s1;   s2 ^= s3;   s3 = util_rotl64(s3, 31);   s2 += s4; \
	s4 += data[4];   s6 ^= s2;   s3 ^= s4;   s4 = util_rotl64(s4, 17);   s3 += s5; \
	s5 += data[5];   s7 ^= s3;   s4 ^= s5;   s5 = util_rotl64(s5, 28);   s4 += s6; \
	s6 += data[6];   s8 ^= s4;   s5 ^= s6;   s6 = util_rotl64(s6, 39);   s5 += s7; \
	s7 += data[7];   s9 ^= s5;   s6 ^= s7;   s7 = util_rotl64(s7, 57);   s6 += s8; \
	s8 += data[8];   s10 ^= s6;   s7 ^= s8;   s8 = util_rotl64(s8, 55);   s7 += s9; \
	s9 += data[9];   s11 ^= s7;   s8 ^= s9;   s9 = util_rotl64(s9, 54);   s8 += s10; \
	s10 += data[10];  s0 ^= s8;   s9 ^= s10;  s10 = util_rotl64(s10, 22);  s9 += s11; \
	s11 += data[11];  s1 ^= s9;   s10 ^= s11;  s11 = util_rotl64(s11, 46);  s10 += s0;

#define EndPartial(h0, h1, h2, h3, h4, h5, h6, h7, h8, h9, h10, h11) \
	h11 += h1;   h2 ^= h11;  h1 = util_rotl64(h1, 44); \
	h0 += h2;   h3 ^= h0;   h2 = util_rotl64(h2, 15); \
	h1 += h3;   h4 ^= h1;   h3 = util_rotl64(h3, 34); \
	h2 += h4;   h5 ^= h2;   h4 = util_rotl64(h4, 21); \
	h3 += h5;   h6 ^= h3;   h5 = util_rotl64(h5, 38); \
	h4 += h6;   h7 ^= h4;   h6 = util_rotl64(h6, 33); \
	h5 += h7;   h8 ^= h5;   h7 = util_rotl64(h7, 10); \
	h6 += h8;   h9 ^= h6;   h8 = util_rotl64(h8, 13); \
	h7 += h9;   h10 ^= h7;   h9 = util_rotl64(h9, 38); \
	h8 += h10;  h11 ^= h8;   h10 = util_rotl64(h10, 53); \
	h9 += h11;  h0 ^= h9;   h11 = util_rotl64(h11, 42); \
	h10 += h0;   h1 ^= h10;  h0 = util_rotl64(h0, 54);

#define End(data, h0, h1, h2, h3, h4, h5, h6, h7, h8, h9, h10, h11) \
	h0 += data[0];  h1 += data[1];  h2 += data[2];    h3 += data[3]; \
	h4 += data[4];  h5 += data[5];  h6 += data[6];    h7 += data[7]; \
	h8 += data[8];  h9 += data[9];  h10 += data[10];   h11 += data[11]; \
	EndPartial(h0, h1, h2, h3, h4, h5, h6, h7, h8, h9, h10, h11); \
	EndPartial(h0, h1, h2, h3, h4, h5, h6, h7, h8, h9, h10, h11); \
	EndPartial(h0, h1, h2, h3, h4, h5, h6, h7, h8, h9, h10, h11);

// number of uint64_t's in internal state
#define sc_numVars 12

// size of the internal state
#define sc_blockSize (sc_numVars * 8)

//
// sc_const: a constant which:
//  * is not zero
//  * is odd
//  * is a not-very-regular mix of 1's and 0's
//  * does not need any other special mathematical properties
//
#define sc_const 0xdeadbeefdeadbeefLL

void SpookyHash128(const void* data, size_t size, const uint8_t* seed, uint8_t* digest)
{
	uint64_t h0, h1, h2, h3, h4, h5, h6, h7, h8, h9, h10, h11;
	uint64_t buf[sc_numVars];
	size_t nblocks;
	const uint64_t* blocks;
	const uint64_t* end;
	size_t size_remainder;
#if WORDS_BIGENDIAN
	unsigned i;
#endif

	h9 = util_read64(seed + 0);
	h10 = util_read64(seed + 8);

	h0 = h3 = h6 = h9;
	h1 = h4 = h7 = h10;
	h2 = h5 = h8 = h11 = sc_const;

	nblocks = size / sc_blockSize;
	blocks = data;
	end = blocks + nblocks * sc_numVars;

	/* body */
	while (blocks < end) {
#if WORDS_BIGENDIAN
		for (i = 0; i < sc_numVars; ++i)
			buf[i] = util_swap64(blocks[i]);
		Mix(buf, h0, h1, h2, h3, h4, h5, h6, h7, h8, h9, h10, h11);
#else
		Mix(blocks, h0, h1, h2, h3, h4, h5, h6, h7, h8, h9, h10, h11);
#endif
		blocks += sc_numVars;
	}

	/* tail */
	size_remainder = (size - ((const uint8_t*)end - (const uint8_t*)data));
	memcpy(buf, end, size_remainder);
	memset(((uint8_t*)buf) + size_remainder, 0, sc_blockSize - size_remainder);
	((uint8_t*)buf)[sc_blockSize - 1] = size_remainder;

	/* finalization */
#if WORDS_BIGENDIAN
	for (i = 0; i < sc_numVars; ++i)
		buf[i] = util_swap64(buf[i]);
#endif
	End(buf, h0, h1, h2, h3, h4, h5, h6, h7, h8, h9, h10, h11);

	util_write64(digest + 0, h0);
	util_write64(digest + 8, h1);
}

