/*
 * Rotate left.
 * In x86/x64 they are optimized with a single assembler instruction.
 */
static inline uint32_t util_rotl32(uint32_t x, int8_t r)
{
	return (x << r) | (x >> (32 - r));
}

static inline uint64_t util_rotl64(uint64_t x, int8_t r)
{
	return (x << r) | (x >> (64 - r));
}

/*
 * Rotate right.
 * In x86/x64 they are optimized with a single assembler instruction.
 */
#if 0 /* unused */
static inline uint32_t util_rotr32(uint32_t x, int8_t r)
{
	return (x >> r) | (x << (32 - r));
}
#endif
static inline uint64_t util_rotr64(uint64_t x, int8_t r)
{
	return (x >> r) | (x << (64 - r));
}


/**
 * Swap endianness.
 * They are needed only if BigEndian.
 */
#if defined(__GNUC__)

#define util_swap32(x) __builtin_bswap32(x)
#define util_swap64(x) __builtin_bswap64(x)

#elif HAVE_BYTESWAP_H

#include <byteswap.h>

#define util_swap32(x) bswap_32(x)
#define util_swap64(x) bswap_64(x)

#else
static inline uint32_t util_swap32(uint32_t v)
{
	return (util_rotl32(v, 8) & 0x00ff00ff)
	       | (util_rotl32(v, 24) & 0xff00ff00);
}

static inline uint64_t util_swap64(uint64_t v)
{
	return (util_rotl64(v, 8) & 0x000000ff000000ffULL)
	       | (util_rotl64(v, 24) & 0x0000ff000000ff00ULL)
	       | (util_rotl64(v, 40) & 0x00ff000000ff0000ULL)
	       | (util_rotl64(v, 56) & 0xff000000ff000000ULL);
}
#endif

static inline uint8_t util_read8(const void* void_ptr)
{
	const uint8_t* ptr = void_ptr;
	return ptr[0];
}

static inline uint16_t util_read16(const void* void_ptr)
{
	const uint8_t* ptr = void_ptr;
	return ptr[0] + (ptr[1] << 8);
}

static inline uint32_t util_read32(const void* ptr)
{
	uint32_t v;
	memcpy(&v, ptr, sizeof(v));
#if WORDS_BIGENDIAN
	v = util_swap32(v);
#endif
	return v;
}

static inline uint64_t util_read64(const void* ptr)
{
	uint64_t v;
	memcpy(&v, ptr, sizeof(v));
#if WORDS_BIGENDIAN
	v = util_swap64(v);
#endif
	return v;
}

static inline void util_write32(void* ptr, uint32_t v)
{
#if WORDS_BIGENDIAN
	v = util_swap32(v);
#endif
	memcpy(ptr, &v, sizeof(v));
}

static inline void util_write64(void* ptr, uint64_t v)
{
#if WORDS_BIGENDIAN
	v = util_swap64(v);
#endif
	memcpy(ptr, &v, sizeof(v));
}

/****************************************************************************/
